package main

import (
	"encoding/json"
	"fmt"
	"os"
	"os/exec"
	"path/filepath"
	"sort"
	"strings"
	"time"

	"verif/internal/engine"
	"verif/internal/sym"
)

// C17: traces of single calls (symbolic execution) + SMT encoding of their interleavings.
func checkC17(repo, tier string, workers int, solverKind string, seed int) int {
	id := "C17"
	t0 := time.Now()
	vd := verifDir()
	p, err := engine.Load(repo, loadOverlay(repo, filepath.Join(vd, "harness")))
	if err != nil {
		fmt.Printf("INCONCLUSIVE property=%s cannot load /repo with harness overlay: %v\n", id, err)
		return 2
	}
	var bodies []string
	for name := range p.Pkg.Members {
		if strings.HasPrefix(name, "vt_C17_") {
			bodies = append(bodies, name)
		}
	}
	sort.Strings(bodies)
	type tr struct {
		body string
		ev   []engine.TraceEvent
	}
	var traces []tr
	paths, steps := 0, int64(0)
	var inconclusive []string
	for _, b := range bodies {
		st, err := engine.Explore(p, b, engine.Opts{MaxSteps: 30000000, MaxDepth: 400, MaxLoop: 1 << 20, Params: map[string]int{}}, workers, solverKind, 10000, 0)
		if err != nil {
			fmt.Printf("INCONCLUSIVE property=%s %s: %v\n", id, b, err)
			return 2
		}
		paths += st.Paths
		steps += st.Steps
		for k, n := range st.Unsupported {
			inconclusive = append(inconclusive, fmt.Sprintf("unsupported x%d %s: %s", n, b, k))
		}
		for k, n := range st.BoundMsgs {
			inconclusive = append(inconclusive, fmt.Sprintf("bound x%d %s: %s", n, b, k))
		}
		if st.ByEnd["panic"] > 0 {
			inconclusive = append(inconclusive, fmt.Sprintf("%s: %d paths end in a panic", b, st.ByEnd["panic"]))
		}
		n := 0
		for _, t := range st.Traces["t"] {
			traces = append(traces, tr{b, t})
			n++
			if os.Getenv("GOSYM_DUMPTRACE") != "" {
				for _, ev := range t {
					fmt.Printf("    %s %-3s %-22s %s\n", b, ev.Kind, ev.Loc, ev.Fn)
				}
			}
		}
		if n == 0 {
			inconclusive = append(inconclusive, "no trace recorded for "+b)
		}
		fmt.Printf("  %-32s paths=%d traces=%d events=%d\n", b, st.Paths, n, func() int {
			c := 0
			for _, t := range st.Traces["t"] {
				c += len(t)
			}
			return c
		}())
	}
	solver, err := sym.NewSolver(solverKind, 20000)
	if err != nil {
		fmt.Println("INCONCLUSIVE property=C17 solver:", err)
		return 2
	}
	defer solver.Close()
	pairs, queries := 0, 0
	violations := 0
	var samples []interface{}
	seenPair := map[string]bool{}
	threads := 2
	for i := range traces {
		for j := i; j < len(traces); j++ {
			pairs++
			race, q, err := engine.FindRace(solver, traces[i].ev, traces[j].ev)
			queries += q
			if err != nil {
				inconclusive = append(inconclusive, fmt.Sprintf("%s || %s: %v", traces[i].body, traces[j].body, err))
				continue
			}
			if len(samples) < 3 {
				samples = append(samples, map[string]interface{}{"threads": []string{traces[i].body, traces[j].body}, "events": []int{len(traces[i].ev), len(traces[j].ev)}, "race": race != nil})
			}
			if race == nil {
				continue
			}
			key := traces[i].body + "|" + traces[j].body
			if seenPair[key] {
				continue
			}
			seenPair[key] = true
			// confirm with the race detector on the real build
			confirmed, out := nativeRace(repo, vd, traces[i].body, traces[j].body)
			desc := fmt.Sprintf("%s || %s: unordered conflicting accesses to %s (%s in %s, %s in %s)", traces[i].body, traces[j].body, race.A.Loc, race.A.Kind, race.A.Fn, race.B.Kind, race.B.Fn)
			if confirmed {
				violations++
				path := filepath.Join(outDir(vd), "replays", id, fmt.Sprintf("race-%d.json", violations))
				os.MkdirAll(filepath.Dir(path), 0o755)
				b, _ := json.MarshalIndent(map[string]interface{}{"kind": "race", "threads": []string{traces[i].body, traces[j].body}, "solver_witness": race, "race_detector_output": tail(out, 3000)}, "", " ")
				os.WriteFile(path, b, 0o644)
				fmt.Printf("VIOLATION property=%s replay=%s %s\n", id, path, desc)
				samples = append(samples, map[string]interface{}{"kind": "violation", "race": desc})
			} else {
				inconclusive = append(inconclusive, "SPURIOUS: the solver found an interleaving with a race that the race detector does not confirm: "+desc)
			}
		}
	}
	// part (ii): calls on independent data do not communicate through the library's own package state
	libState := []string{"G:github.com/go-openapi/spec.", "once:G:github.com/go-openapi/spec."}
	flowPairs, flowQueries := 0, 0
	for i := range traces {
		for j := i; j < len(traces); j++ {
			flowPairs++
			fl, q, err := engine.FindFlow(solver, traces[i].ev, traces[j].ev, libState)
			flowQueries += q
			if err != nil {
				inconclusive = append(inconclusive, fmt.Sprintf("flow %s || %s: %v", traces[i].body, traces[j].body, err))
				continue
			}
			if fl == nil {
				continue
			}
			key := "flow|" + traces[i].body + "|" + traces[j].body
			if seenPair[key] {
				continue
			}
			seenPair[key] = true
			desc := fmt.Sprintf("%s || %s: one call observes library state written by the other: %s (%s in %s, %s in %s)", traces[i].body, traces[j].body, fl.A.Loc, fl.A.Kind, fl.A.Fn, fl.B.Kind, fl.B.Fn)
			confirmed, out := nativeAnswers(repo, vd, traces[i].body, traces[j].body)
			if confirmed {
				violations++
				path := filepath.Join(outDir(vd), "replays", id, fmt.Sprintf("answers-%d.json", violations))
				os.MkdirAll(filepath.Dir(path), 0o755)
				b, _ := json.MarshalIndent(map[string]interface{}{"kind": "answers", "threads": []string{traces[i].body, traces[j].body}, "solver_witness": fl, "native_output": tail(out, 3000)}, "", " ")
				os.WriteFile(path, b, 0o644)
				fmt.Printf("VIOLATION property=%s replay=%s %s; natively a concurrent call returned another answer than alone\n", id, path, desc)
				samples = append(samples, map[string]interface{}{"kind": "violation", "flow": desc})
			} else {
				inconclusive = append(inconclusive, "UNCONFIRMED: the solver found a schedule in which "+desc+"; natively every concurrent answer equalled the sequential one")
			}
		}
	}
	queries += flowQueries
	sort.Strings(inconclusive)
	for i, l := range inconclusive {
		if i >= 10 {
			break
		}
		fmt.Printf("INCONCLUSIVE property=%s %s\n", id, l)
	}
	if len(samples) == 0 {
		samples = append(samples, "no trace pairs")
	}
	ev := map[string]interface{}{
		"property_id": id, "tier": tier, "seed": seed, "level": "model_checking",
		"coverage": map[string]interface{}{
			"states": max(paths, 1), "transitions": max(int(steps), 1), "traces_validated_against_impl": 0, "samples": samples,
			"thread_bodies": bodies, "traces": len(traces), "trace_pairs": pairs, "interleaving_queries": queries, "flow_pairs": flowPairs, "flow_queries": flowQueries, "threads": threads,
			"solver_time_s": solver.Time.Seconds(), "undischarged": inconclusive,
			"bounds":           []string{"2 threads, one public call per thread; thread bodies: " + strings.Join(bodies, ", "), "events: reads/writes of package state and of values marked shared (struct-field granularity), Mutex/RWMutex Lock/Unlock/RLock/RUnlock, sync.Once bodies; atomic operations are synchronisation, not accesses"},
			"outside_bounds":   []string{"3 or more threads, several calls per thread, deadlock (no nested lock acquisition occurs in the recorded traces), the Go memory model beyond mutex/Once/atomic happens-before", "'every call returns what it would have returned alone' is decided as: no call observes package state of go-openapi/spec that another call wrote outside sync.Once initialisation (communication through a caller-supplied shared cache, whose transparency is C18, and through memo caches of dependencies such as swag's name provider is not covered)"},
			"explanation_flow": "second query family per pair: is there an interleaving in which an access of one thread to go-openapi/spec package state (package variables, objects allocated by its Once initialisers) follows a write of the other thread made outside Once initialisation; sat = candidate, confirmed by running both bodies concurrently and comparing every answer with the sequential answer",
			"explanation":      "each thread body is executed symbolically from the pristine package state; for every pair of traces a QF_LIA query asks z3 for an interleaving (program order, mutual exclusion of critical sections, Once winner/loser) in which two conflicting accesses are adjacent",
		},
		"assumptions": []string{"a caller-supplied shared cache is the package's own lock-protected simpleCache", "swag's name provider is part of the trace (its mutex is modelled like any other)"},
		"wall_s":      time.Since(t0).Seconds(), "violations": violations,
	}
	eb, _ := json.MarshalIndent(ev, "", " ")
	os.MkdirAll(filepath.Join(outDir(vd), "evidence"), 0o755)
	os.WriteFile(filepath.Join(outDir(vd), "evidence", id+".json"), eb, 0o644)
	fmt.Printf("property=%s tier=%s paths=%d traces=%d pairs=%d queries=%d violations=%d wall=%.1fs\n", id, tier, paths, len(traces), pairs, queries, violations, time.Since(t0).Seconds())
	if violations > 0 {
		return 1
	}
	return 0
}

// nativeRace runs the two thread bodies concurrently under the race detector.
func nativeRace(repo, vd, a, b string) (bool, string) {
	workDir := filepath.Join(outDir(vd), "replays", "C17", fmt.Sprintf("run-%d", os.Getpid()))
	os.MkdirAll(workDir, 0o755)
	defer os.RemoveAll(workDir)
	repl := map[string]string{}
	add := func(pattern string) {
		files, _ := filepath.Glob(pattern)
		for _, f := range files {
			repl[filepath.Join(repo, "zz_verif_"+filepath.Base(f))] = f
		}
	}
	add(filepath.Join(vd, "harness", "*.go"))
	add(filepath.Join(vd, "harness", "native", "*.go"))
	test := fmt.Sprintf(`//go:build verif && verifnative

package spec

import (
	"sync"
	"testing"
)

func TestVerifRace(t *testing.T) {
	vReset(&vWitness{Inputs: map[string]uint64{}})
	for round := 0; round < 300; round++ {
		var wg sync.WaitGroup
		wg.Add(2)
		go func() { defer wg.Done(); %s() }()
		go func() { defer wg.Done(); %s() }()
		wg.Wait()
	}
}
`, a, b)
	tf := filepath.Join(workDir, "zz_verif_race_test.go")
	os.WriteFile(tf, []byte(test), 0o644)
	repl[filepath.Join(repo, "zz_verif_race_test.go")] = tf
	ovb, _ := json.Marshal(map[string]interface{}{"Replace": repl})
	ov := filepath.Join(workDir, "overlay.json")
	os.WriteFile(ov, ovb, 0o644)
	cmd := exec.Command("go", "test", "-race", "-tags", "verif verifnative", "-overlay", ov, "-run", "^TestVerifRace$", "-count=1", "-vet=off", "-timeout", "10m", ".")
	cmd.Dir = repo
	cmd.Env = append(os.Environ(), "GOFLAGS=-mod=mod", "GOPROXY=off", "GOSUMDB=off", "GOTOOLCHAIN=local")
	out, _ := cmd.CombinedOutput()
	return strings.Contains(string(out), "DATA RACE"), string(out)
}

// nativeAnswers runs the two thread bodies concurrently many times and compares every answer with the
// answer the body gives when run alone.
func nativeAnswers(repo, vd, a, b string) (bool, string) {
	workDir := filepath.Join(outDir(vd), "replays", "C17", fmt.Sprintf("run-%d", os.Getpid()))
	os.MkdirAll(workDir, 0o755)
	defer os.RemoveAll(workDir)
	repl := map[string]string{}
	add := func(pattern string) {
		files, _ := filepath.Glob(pattern)
		for _, f := range files {
			repl[filepath.Join(repo, "zz_verif_"+filepath.Base(f))] = f
		}
	}
	add(filepath.Join(vd, "harness", "*.go"))
	add(filepath.Join(vd, "harness", "native", "*.go"))
	test := fmt.Sprintf(`//go:build verif && verifnative

package spec

import (
	"runtime"
	"sync"
	"testing"
)

func TestVerifAnswers(t *testing.T) {
	vReset(&vWitness{Inputs: map[string]uint64{}})
	ra, rb := %[1]s(), %[2]s()
	for round := 0; round < 3000; round++ {
		runtime.GOMAXPROCS(1 + round%%4)
		var ga, gb string
		var wg sync.WaitGroup
		wg.Add(2)
		go func() { defer wg.Done(); ga = %[1]s() }()
		go func() { defer wg.Done(); gb = %[2]s() }()
		wg.Wait()
		if ga != ra {
			t.Fatalf("ANSWER DIFFERS round %%d %[1]s: alone %%s concurrent %%s", round, ra, ga)
		}
		if gb != rb {
			t.Fatalf("ANSWER DIFFERS round %%d %[2]s: alone %%s concurrent %%s", round, rb, gb)
		}
	}
}
`, a, b)
	tf := filepath.Join(workDir, "zz_verif_answers_test.go")
	os.WriteFile(tf, []byte(test), 0o644)
	repl[filepath.Join(repo, "zz_verif_answers_test.go")] = tf
	ovb, _ := json.Marshal(map[string]interface{}{"Replace": repl})
	ov := filepath.Join(workDir, "overlay.json")
	os.WriteFile(ov, ovb, 0o644)
	cmd := exec.Command("go", "test", "-tags", "verif verifnative", "-overlay", ov, "-run", "^TestVerifAnswers$", "-count=1", "-vet=off", "-timeout", "10m", ".")
	cmd.Dir = repo
	cmd.Env = append(os.Environ(), "GOFLAGS=-mod=mod", "GOPROXY=off", "GOSUMDB=off", "GOTOOLCHAIN=local")
	out, _ := cmd.CombinedOutput()
	return strings.Contains(string(out), "ANSWER DIFFERS") || strings.Contains(string(out), "concurrent map"), string(out)
}
