package main

import (
	"encoding/json"
	"flag"
	"fmt"
	"os"
	"os/exec"
	"path/filepath"
	"runtime"
	"sort"
	"strings"
	"time"

	"verif/internal/engine"
)

type Tier struct {
	Params   map[string]int
	MaxPaths int
}

type PropSpec struct {
	ID          string
	Title       string
	Prefix      string // harness name prefix
	Quick       Tier
	Thorough    Tier
	MapOrderSym bool
	MaxSteps    int
	MaxDepth    int
	BoundIsViol bool
	Cross       string // thorough tier: second back end re-deciding every obligation
	Repeat      int    // native replay repetitions (map-order dependent properties)
	Bounds      []string
	Assumptions []string
	Models      []string
	Outside     []string
}

type Outcome struct {
	Index          int      `json:"index"`
	Harness        string   `json:"harness"`
	Failures       []string `json:"failures"`
	Panic          string   `json:"panic,omitempty"`
	Hang           bool     `json:"hang,omitempty"`
	AssumeViolated bool     `json:"assume_violated,omitempty"`
}

func verifDir() string {
	if d := os.Getenv("VERIF_DIR"); d != "" {
		return d
	}
	exe, err := os.Executable()
	if err == nil {
		d := filepath.Dir(filepath.Dir(exe))
		if _, err := os.Stat(filepath.Join(d, "harness")); err == nil {
			return d
		}
	}
	return "/verif"
}

// outDir: where evidence and replay files go (VERIF_OUT_DIR redirects them, used when a check is run
// against a seeded change so that the committed evidence is not overwritten).
func outDir(vd string) string {
	if d := os.Getenv("VERIF_OUT_DIR"); d != "" {
		return d
	}
	return vd
}

func loadKnown(prop string) []engine.KnownRegion {
	var all struct {
		Findings []engine.KnownRegion `json:"findings"`
	}
	b, err := os.ReadFile(filepath.Join(verifDir(), "known_findings.json"))
	if err != nil {
		return nil
	}
	if err := json.Unmarshal(b, &all); err != nil {
		fmt.Println("WARNING: known_findings.json does not parse:", err)
		return nil
	}
	var out []engine.KnownRegion
	for _, k := range all.Findings {
		if k.Property == prop {
			out = append(out, k)
		}
	}
	return out
}

// nativeReplay runs the given witnesses through the real build (harness compiled natively).
func nativeReplay(repo, workDir string, harnesses []string, ws []*engine.Witness, repeat int) ([]Outcome, string, error) {
	vd := verifDir()
	if err := os.MkdirAll(workDir, 0o755); err != nil {
		return nil, "", err
	}
	repl := map[string]string{}
	add := func(pattern string) {
		files, _ := filepath.Glob(pattern)
		for _, f := range files {
			repl[filepath.Join(repo, "zz_verif_"+filepath.Base(f))] = f
		}
	}
	add(filepath.Join(vd, "harness", "*.go"))
	add(filepath.Join(vd, "harness", "native", "*.go"))
	tmpl, err := os.ReadFile(filepath.Join(vd, "harness", "native", "replay_test.go.tmpl"))
	if err != nil {
		return nil, "", err
	}
	var reg strings.Builder
	for _, h := range harnesses {
		fmt.Fprintf(&reg, "\t%q: %s,\n", h, h)
	}
	testFile := filepath.Join(workDir, "zz_verif_replay_test.go")
	if err := os.WriteFile(testFile, []byte(strings.Replace(string(tmpl), "__REGISTRY__", reg.String(), 1)), 0o644); err != nil {
		return nil, "", err
	}
	repl[filepath.Join(repo, "zz_verif_replay_test.go")] = testFile
	ovb, _ := json.Marshal(map[string]interface{}{"Replace": repl})
	ovFile := filepath.Join(workDir, "overlay.json")
	os.WriteFile(ovFile, ovb, 0o644)
	wFile := filepath.Join(workDir, "witnesses.json")
	wb, _ := json.MarshalIndent(ws, "", " ")
	os.WriteFile(wFile, wb, 0o644)
	outFile := filepath.Join(workDir, "outcomes.json")
	os.Remove(outFile)
	cmd := exec.Command("go", "test", "-tags", "verif verifnative", "-overlay", ovFile, "-run", "^TestVerifReplay$", "-count=1", "-vet=off", "-timeout", "20m", ".")
	cmd.Dir = repo
	cmd.Env = append(os.Environ(), "GOFLAGS=-mod=mod", "GOPROXY=off", "GOSUMDB=off", "GOTOOLCHAIN=local",
		"VERIF_VALIDATE_PY="+filepath.Join(vd, "harness", "native", "validate.py"), "VERIF_WITNESSES="+wFile, "VERIF_OUTCOMES="+outFile, fmt.Sprintf("VERIF_REPEAT=%d", repeat))
	out, runErr := cmd.CombinedOutput()
	var outs []Outcome
	b, err := os.ReadFile(outFile)
	if err != nil {
		return nil, string(out), fmt.Errorf("native replay produced no outcomes (%v): %s", runErr, tail(string(out), 2000))
	}
	if err := json.Unmarshal(b, &outs); err != nil {
		return nil, string(out), err
	}
	// a hanging witness ends the test process: replay the remaining witnesses in a new one
	if len(outs) > 0 && len(outs) < len(ws) && outs[len(outs)-1].Hang {
		rest, rawRest, err := nativeReplay(repo, workDir+"_r", harnesses, ws[len(outs):], repeat)
		os.RemoveAll(workDir + "_r")
		if err == nil {
			outs = append(outs, rest...)
		}
		return outs, string(out) + rawRest, nil
	}
	return outs, string(out), nil
}

func tail(s string, n int) string {
	if len(s) > n {
		return s[len(s)-n:]
	}
	return s
}

func reproduces(w *engine.Witness, o Outcome) bool {
	if strings.HasPrefix(w.Msg, "uncaught panic") {
		return o.Panic != ""
	}
	if strings.HasPrefix(w.Msg, "no result within the work bound") {
		return o.Hang
	}
	// member-wise JSON assertions name the member; symbolic names print differently natively
	key := func(m string) string {
		if i := strings.Index(m, ": member "); i >= 0 {
			j := strings.LastIndex(m, " lost or changed")
			if j < 0 {
				j = strings.LastIndex(m, " appears only")
			}
			if j > i && strings.Contains(m[i:j], "(symbolic name)") {
				return m[:i] + m[j:]
			}
		}
		return m
	}
	for _, f := range o.Failures {
		if f == w.Msg {
			return true
		}
		if k := key(w.Msg); k != w.Msg {
			if i := strings.Index(f, ": member "); i >= 0 && strings.HasPrefix(k, f[:i]) && strings.HasSuffix(f, k[i:]) {
				return true
			}
		}
	}
	return false
}

func crossNote(st *engine.Stats) string {
	if st.CrossQ == 0 {
		return ""
	}
	return fmt.Sprintf(" cross=%d/unknown=%d", st.CrossQ, st.CrossUnknown)
}

func cmdCheck(args []string) int {
	fs := flag.NewFlagSet("check", flag.ExitOnError)
	repo := fs.String("repo", "/repo", "")
	tier := fs.String("tier", "", "quick|thorough")
	workers := fs.Int("j", 0, "")
	solver := fs.String("solver", "z3", "")
	cross := fs.String("cross", "", "second back end that re-decides every obligation (cvc5 | z3-new); default: VERIF_CROSS")
	only := fs.String("only", "", "restrict to harnesses containing this substring (debug)")
	override := fs.String("p", "", "k=v,k=v: override tier parameters (exploration of bounds; recorded in the evidence)")
	fs.Parse(args)
	if fs.NArg() != 1 {
		fmt.Println("usage: gosym check [--tier quick|thorough] <property id>")
		return 2
	}
	id := fs.Arg(0)
	if *tier == "" {
		*tier = os.Getenv("VERIF_TIER")
	}
	if *tier == "" {
		*tier = "quick"
	}
	seed := 0
	fmt.Sscan(os.Getenv("VERIF_SEED"), &seed)
	if *workers == 0 {
		*workers = runtime.NumCPU()
	}
	if id == "C17" {
		return checkC17(*repo, *tier, *workers, *solver, seed)
	}
	spec, ok := propSpecs[id]
	if !ok {
		fmt.Printf("no check registered for %s\n", id)
		return 2
	}
	t0 := time.Now()
	vd := verifDir()
	hdir := filepath.Join(vd, "harness")
	p, err := engine.Load(*repo, loadOverlay(*repo, hdir))
	if err != nil {
		fmt.Printf("INCONCLUSIVE property=%s cannot load /repo with harness overlay: %v\n", id, err)
		return 2
	}
	for _, ip := range p.InitProblems {
		fmt.Println("init problem:", ip)
	}
	tr := spec.Quick
	timeout := 10000
	if *tier == "thorough" {
		tr = spec.Thorough
		timeout = 60000
	}
	if *override != "" {
		np := map[string]int{}
		for k, v := range tr.Params {
			np[k] = v
		}
		for _, kv := range strings.Split(*override, ",") {
			if k, v, ok := strings.Cut(kv, "="); ok {
				var n int
				fmt.Sscan(v, &n)
				np[k] = n
			}
		}
		tr.Params = np
	}
	var harnesses []string
	for name := range p.Pkg.Members {
		if strings.HasPrefix(name, spec.Prefix) && (*only == "" || strings.Contains(name, *only)) {
			harnesses = append(harnesses, name)
		}
	}
	sort.Strings(harnesses)
	if len(harnesses) == 0 {
		fmt.Printf("INCONCLUSIVE property=%s no harness with prefix %s\n", id, spec.Prefix)
		return 2
	}
	known := loadKnown(id)
	opts := engine.Opts{MaxSteps: spec.MaxSteps, MaxDepth: spec.MaxDepth, MaxLoop: 1 << 20, MapOrderSymbolic: spec.MapOrderSym, WantReach: true, Params: tr.Params, Known: known, BoundIsViolation: spec.BoundIsViol}
	if *cross == "" {
		*cross = os.Getenv("VERIF_CROSS")
	}
	if *cross == "" && *tier == "thorough" && spec.Cross != "" {
		*cross = spec.Cross
	}
	opts.CrossKind = *cross
	// fail fast: on a tree that breaks the property the first candidates decide the verdict; exploring on
	// only multiplies them (GOSYM_ALLVIOL=1 explores everything)
	if os.Getenv("GOSYM_ALLVIOL") == "" && *tier != "thorough" {
		opts.StopAfterViol = 40
	}
	if opts.MaxSteps == 0 {
		opts.MaxSteps = 5000000
	}
	if opts.MaxDepth == 0 {
		opts.MaxDepth = 400
	}

	type hres struct {
		Name string
		St   *engine.Stats
	}
	var results []hres
	total := &engine.Stats{ByEnd: map[string]int{}, Unsupported: map[string]int{}, BoundMsgs: map[string]int{}, Funcs: map[string]bool{}}
	for _, h := range harnesses {
		st, err := engine.Explore(p, h, opts, *workers, *solver, timeout, tr.MaxPaths)
		if err != nil {
			fmt.Printf("INCONCLUSIVE property=%s harness=%s engine error: %v\n", id, h, err)
			return 2
		}
		results = append(results, hres{h, st})
		total.Paths += st.Paths
		total.Steps += st.Steps
		total.Obligations += st.Obligations
		total.Discharged += st.Discharged
		total.Queries += st.Queries
		total.SolverTime += st.SolverTime
		total.CrossQ += st.CrossQ
		total.CrossUnknown += st.CrossUnknown
		total.CrossTime += st.CrossTime
		for k, v := range st.ByEnd {
			total.ByEnd[k] += v
		}
		for k, v := range st.Unsupported {
			total.Unsupported[h+": "+k] += v
		}
		for k, v := range st.BoundMsgs {
			total.BoundMsgs[h+": "+k] += v
		}
		for k := range st.Funcs {
			total.Funcs[k] = true
		}
		total.SolverErrors = append(total.SolverErrors, st.SolverErrors...)
		for _, u := range st.Undischarged {
			total.Undischarged = append(total.Undischarged, h+": "+u)
		}
		if st.PathLimitHit {
			total.PathLimitHit = true
		}
		if st.StoppedEarly {
			total.StoppedEarly = true
		}
		stopNow := st.StoppedEarly
		fmt.Printf("  %-44s paths=%d ends=%v obligations=%d discharged=%d candidates=%d known=%d queries=%d%s wall=%.1fs\n", h, st.Paths, st.ByEnd, st.Obligations, st.Discharged, st.NViol, st.NKnown, st.Queries, crossNote(st), st.Wall.Seconds())
		if stopNow {
			break
		}
	}

	// collect witnesses for native replay
	var ws []*engine.Witness
	seenV := map[string]int{}
	for _, r := range results {
		for _, v := range r.St.Violations {
			k := v.Harness + "|" + v.Msg
			if seenV[k] >= 6 { // several candidates per message: one that does not reproduce must not hide one that does
				continue
			}
			seenV[k]++
			ws = append(ws, v)
		}
		seenK := map[string]int{}
		for _, v := range r.St.KnownHits {
			if seenK[v.Known] >= 2 {
				continue
			}
			seenK[v.Known]++
			ws = append(ws, v)
		}
		for i, v := range r.St.Reach {
			if i >= 2 {
				break
			}
			ws = append(ws, v)
		}
	}
	for _, w := range ws {
		w.Trace = nil
	}
	runDir := filepath.Join(outDir(vd), "replays", id, fmt.Sprintf("run-%d", os.Getpid()))
	repeat := spec.Repeat
	if repeat == 0 {
		repeat = 1
	}
	outs, rawOut, err := nativeReplay(*repo, runDir, harnesses, ws, repeat)
	defer os.RemoveAll(runDir)
	violations := 0
	spurious := 0
	validated := 0
	var lines []string
	knownPrinted := map[string]bool{}
	violPrinted := map[string]bool{}
	var samples []interface{}
	if err != nil {
		fmt.Printf("INCONCLUSIVE property=%s native replay failed: %v\n", id, err)
		_ = rawOut
	} else {
		for i, w := range ws {
			if i >= len(outs) {
				break
			}
			o := outs[i]
			switch w.Kind {
			case "violation":
				if o.AssumeViolated {
					spurious++
					lines = append(lines, fmt.Sprintf("SPURIOUS property=%s harness=%s witness violates a harness assumption natively (model imprecision): %s", id, w.Harness, w.Msg))
					continue
				}
				if reproduces(w, o) {
					key := w.Harness + "|" + w.Msg
					if !violPrinted[key] {
						violPrinted[key] = true
						violations++
						path := filepath.Join(outDir(vd), "replays", id, fmt.Sprintf("%s-%d.json", w.Harness, violations))
						b, _ := json.MarshalIndent(w, "", " ")
						os.MkdirAll(filepath.Dir(path), 0o755)
						os.WriteFile(path, b, 0o644)
						lines = append(lines, fmt.Sprintf("VIOLATION property=%s replay=%s harness=%s %s", id, path, w.Harness, w.Msg))
						if len(samples) < 6 {
							samples = append(samples, map[string]interface{}{"kind": "violation", "harness": w.Harness, "msg": w.Msg, "inputs": w.Inputs, "native": o})
						}
					}
				} else {
					spurious++
					lines = append(lines, fmt.Sprintf("SPURIOUS property=%s harness=%s solver witness does not reproduce on the real build (encoding or model wrong): %s", id, w.Harness, w.Msg))
				}
			case "known":
				if reproduces(w, o) {
					if !knownPrinted[w.Known] {
						knownPrinted[w.Known] = true
						what := w.Known
						for _, k := range known {
							if k.ID == w.Known {
								what = k.ID + " " + k.What
							}
						}
						lines = append(lines, fmt.Sprintf("KNOWN-FINDING: property=%s %s", id, what))
						if len(samples) < 6 {
							samples = append(samples, map[string]interface{}{"kind": "known-finding", "id": w.Known, "harness": w.Harness, "msg": w.Msg, "inputs": w.Inputs})
						}
					}
					validated++
				} else {
					spurious++
					lines = append(lines, fmt.Sprintf("SPURIOUS property=%s harness=%s known-finding witness %s does not reproduce natively", id, w.Harness, w.Known))
				}
			case "reach":
				if len(o.Failures) == 0 && o.Panic == "" && !o.Hang && !o.AssumeViolated {
					validated++
					if len(samples) < 4 {
						samples = append(samples, map[string]interface{}{"kind": "reachability witness (all assertions hold; replayed natively)", "harness": w.Harness, "inputs": w.Inputs})
					}
				} else if o.AssumeViolated {
					spurious++
					lines = append(lines, fmt.Sprintf("SPURIOUS property=%s harness=%s reach witness violates an assumption natively", id, w.Harness))
				} else if flaky := func() bool {
					// a failure that is not the same on every run is an effect of Go's randomised map iteration in the
					// native build (the executor's orders are fixed unless a harness asks for symbolic ones), not a
					// disagreement between executor and code on this input: three more runs must all fail
					for r := 0; r < 3; r++ {
						o2, _, err2 := nativeReplay(*repo, fmt.Sprintf("%s_again%d_%d", runDir, i, r), harnesses, []*engine.Witness{w}, 1)
						os.RemoveAll(fmt.Sprintf("%s_again%d_%d", runDir, i, r))
						if err2 == nil && len(o2) == 1 && len(o2[0].Failures) == 0 && o2[0].Panic == "" && !o2[0].Hang {
							return true
						}
					}
					return false
				}(); flaky {
					spurious++
					lines = append(lines, fmt.Sprintf("SPURIOUS property=%s harness=%s native replay of a reachability witness fails on some runs only (map iteration order): %v", id, w.Harness, o.Failures))
				} else {
					// the real build fails the harness assertion on an input the executor judged fine
					key := w.Harness + "|native"
					if !violPrinted[key] {
						violPrinted[key] = true
						violations++
						path := filepath.Join(outDir(vd), "replays", id, fmt.Sprintf("%s-%d.json", w.Harness, violations))
						b, _ := json.MarshalIndent(w, "", " ")
						os.MkdirAll(filepath.Dir(path), 0o755)
						os.WriteFile(path, b, 0o644)
						lines = append(lines, fmt.Sprintf("VIOLATION property=%s replay=%s harness=%s native replay of a reachability witness fails: %v %s", id, path, w.Harness, o.Failures, o.Panic))
					}
				}
			}
		}
	}
	sort.Strings(lines)
	for _, l := range lines {
		fmt.Println(l)
	}
	// vacuity: every harness must reach its end on some path
	vacuous := []string{}
	for _, r := range results {
		if r.St.ByEnd["done"] == 0 && len(r.St.Violations) == 0 && len(r.St.KnownHits) == 0 {
			vacuous = append(vacuous, r.Name)
		}
	}
	inconclusive := []string{}
	for k, n := range total.Unsupported {
		inconclusive = append(inconclusive, fmt.Sprintf("unsupported x%d %s", n, k))
	}
	for k, n := range total.BoundMsgs {
		inconclusive = append(inconclusive, fmt.Sprintf("bound x%d %s", n, k))
	}
	for _, u := range total.Undischarged {
		inconclusive = append(inconclusive, "undischarged "+u)
	}
	for _, v := range vacuous {
		inconclusive = append(inconclusive, "vacuous harness (no path reaches the end): "+v)
	}
	if spurious > 0 {
		inconclusive = append(inconclusive, fmt.Sprintf("%d spurious witnesses", spurious))
	}
	if len(total.SolverErrors) > 0 {
		inconclusive = append(inconclusive, fmt.Sprintf("%d solver error lines, e.g. %s", len(total.SolverErrors), total.SolverErrors[0]))
	}
	if total.PathLimitHit {
		inconclusive = append(inconclusive, "path limit reached: exploration truncated")
	}
	if total.StoppedEarly {
		inconclusive = append(inconclusive, "exploration stopped early after the first candidate violations (remaining harnesses and paths not explored)")
	}
	sort.Strings(inconclusive)
	for i, l := range inconclusive {
		if i >= 12 {
			fmt.Printf("INCONCLUSIVE property=%s ... %d more\n", id, len(inconclusive)-i)
			break
		}
		fmt.Printf("INCONCLUSIVE property=%s %s\n", id, l)
	}

	// evidence
	var funcs []string
	for f := range total.Funcs {
		if !strings.Contains(f, ".vh_") {
			funcs = append(funcs, f)
		}
	}
	sort.Strings(funcs)
	if len(samples) == 0 {
		samples = append(samples, map[string]interface{}{"kind": "none", "note": "no witness available"})
	}
	perHarness := map[string]interface{}{}
	for _, r := range results {
		perHarness[r.Name] = map[string]interface{}{"paths": r.St.Paths, "ends": r.St.ByEnd, "obligations": r.St.Obligations, "discharged": r.St.Discharged, "queries": r.St.Queries, "solver_time_s": r.St.SolverTime.Seconds(), "wall_s": r.St.Wall.Seconds()}
	}
	ev := map[string]interface{}{
		"property_id": id,
		"tier":        *tier,
		"seed":        seed,
		"level":       "model_checking",
		"coverage": map[string]interface{}{
			"states":                        total.Paths,
			"transitions":                   total.Steps,
			"traces_validated_against_impl": validated,
			"samples":                       samples,
			"obligations":                   total.Obligations,
			"discharged":                    total.Discharged,
			"undischarged":                  inconclusive,
			"queries":                       total.Queries,
			"solver_time_s":                 total.SolverTime.Seconds(),
			"solver":                        *solver,
			"cross_solver":                  *cross,
			"cross_queries":                 total.CrossQ,
			"cross_unknown":                 total.CrossUnknown,
			"cross_solver_time_s":           total.CrossTime.Seconds(),
			"path_ends":                     total.ByEnd,
			"harnesses":                     perHarness,
			"functions_encoded":             funcs,
			"bounds":                        append(append([]string{}, spec.Bounds...), fmt.Sprintf("tier parameters: %v", tr.Params)),
			"outside_bounds":                spec.Outside,
			"models_stubs":                  spec.Models,
			"known_findings_reported":       len(knownPrinted),
			"spurious_witnesses":            spurious,
			"exhaustive":                    !total.PathLimitHit && !total.StoppedEarly && len(total.Unsupported) == 0 && len(total.BoundMsgs) == 0,
			"explanation":                   "bounded symbolic execution of the SSA of /repo's current working tree (regenerated on this run); every obligation is a z3 query over all values of the symbolic inputs within the stated bounds",
			"ssa_load_s":                    p.LoadTime.Seconds(),
		},
		"assumptions": spec.Assumptions,
		"wall_s":      time.Since(t0).Seconds(),
		"violations":  violations,
	}
	if os.Getenv("GOSYM_KFAUDIT") != "" {
		for _, k := range known {
			fmt.Printf("KF-AUDIT %s hits=%d exclusive=%d\n", k.ID, engine.KFHits[k.ID], engine.KFExclusive[k.ID])
		}
	}
	eb, _ := json.MarshalIndent(ev, "", " ")
	os.MkdirAll(filepath.Join(outDir(vd), "evidence"), 0o755)
	os.WriteFile(filepath.Join(outDir(vd), "evidence", id+".json"), eb, 0o644)
	fmt.Printf("property=%s tier=%s paths=%d obligations=%d discharged=%d violations=%d known=%d validated_natively=%d wall=%.1fs\n",
		id, *tier, total.Paths, total.Obligations, total.Discharged, violations, len(knownPrinted), validated, time.Since(t0).Seconds())
	if violations > 0 {
		return 1
	}
	return 0
}

// cmdReplay re-runs one stored witness against the real build.
func cmdReplay(args []string) int {
	fs := flag.NewFlagSet("replay", flag.ExitOnError)
	repo := fs.String("repo", "/repo", "")
	fs.Parse(args)
	if fs.NArg() != 1 {
		fmt.Println("usage: gosym replay <witness.json>")
		return 2
	}
	b, err := os.ReadFile(fs.Arg(0))
	if err != nil {
		fmt.Println(err)
		return 2
	}
	var w engine.Witness
	if err := json.Unmarshal(b, &w); err != nil {
		fmt.Println(err)
		return 2
	}
	vd := verifDir()
	// registry: every harness function found in the harness sources
	var harnesses []string
	files, _ := filepath.Glob(filepath.Join(vd, "harness", "*.go"))
	for _, f := range files {
		src, _ := os.ReadFile(f)
		for _, line := range strings.Split(string(src), "\n") {
			if strings.HasPrefix(line, "func vh_") {
				name := strings.TrimPrefix(line, "func ")
				if i := strings.Index(name, "("); i > 0 {
					harnesses = append(harnesses, name[:i])
				}
			}
		}
	}
	runDir := filepath.Join(outDir(vd), "replays", "single", fmt.Sprintf("run-%d", os.Getpid()))
	defer os.RemoveAll(runDir)
	outs, raw, err := nativeReplay(*repo, runDir, harnesses, []*engine.Witness{&w}, 50)
	if err != nil {
		fmt.Println("replay failed:", err, raw)
		return 2
	}
	o := outs[0]
	fmt.Printf("harness=%s expected=%q\nnative failures=%v panic=%q hang=%v\n", w.Harness, w.Msg, o.Failures, o.Panic, o.Hang)
	if reproduces(&w, o) {
		fmt.Println("REPRODUCED")
		return 1
	}
	fmt.Println("not reproduced")
	return 0
}
