package main

import (
	"runtime/debug"
	"runtime/pprof"
	"flag"
	"fmt"
	"os"
	"path/filepath"
	"sort"
	"strings"

	"verif/internal/engine"
)

func loadOverlay(repo, hdir string) map[string][]byte {
	ov := map[string][]byte{}
	files, _ := filepath.Glob(filepath.Join(hdir, "*.go"))
	for _, f := range files {
		b, err := os.ReadFile(f)
		if err != nil {
			panic(err)
		}
		ov[filepath.Join(repo, "zz_verif_"+filepath.Base(f))] = b
	}
	return ov
}

func main() {
	debug.SetGCPercent(400)
	if len(os.Args) < 2 {
		fmt.Println("usage: gosym run|check ...")
		os.Exit(2)
	}
	switch os.Args[1] {
	case "run":
		cmdRun(os.Args[2:])
	case "check":
		os.Exit(cmdCheck(os.Args[2:]))
	case "replay":
		os.Exit(cmdReplay(os.Args[2:]))
	default:
		fmt.Println("unknown command")
		os.Exit(2)
	}
}

// run: debug driver for one harness
func cmdRun(args []string) {
	fs := flag.NewFlagSet("run", flag.ExitOnError)
	repo := fs.String("repo", "/repo", "")
	hdir := fs.String("harness", "/verif/harness", "")
	workers := fs.Int("j", 8, "")
	maxPaths := fs.Int("maxpaths", 0, "")
	steps := fs.Int("steps", 2000000, "")
	solver := fs.String("solver", "z3", "")
	mapsym := fs.Bool("mapsym", false, "")
	params := fs.String("p", "", "k=v,k=v")
	boundViol := fs.Bool("boundviol", false, "")
	fs.Parse(args)
	p, err := engine.Load(*repo, loadOverlay(*repo, *hdir))
	if err != nil {
		fmt.Println("load error:", err)
		os.Exit(2)
	}
	fmt.Printf("loaded in %v; init steps %d; init problems: %v\n", p.LoadTime, p.InitSteps, p.InitProblems)
	pm := map[string]int{}
	for _, kv := range strings.Split(*params, ",") {
		if k, v, ok := strings.Cut(kv, "="); ok {
			fmt.Sscan(v, new(int))
			var n int
			fmt.Sscan(v, &n)
			pm[k] = n
		}
	}
	if os.Getenv("GOSYM_FORKSTATS") != "" {
		engine.ForkStats = map[string]int{}
		defer func() {
			type kv struct {
				k string
				v int
			}
			var l []kv
			for k, v := range engine.ForkStats {
				l = append(l, kv{k, v})
			}
			sort.Slice(l, func(i, j int) bool { return l[i].v > l[j].v })
			for i, x := range l {
				if i < 40 {
					fmt.Printf("  forks %6d %s\n", x.v, x.k)
				}
			}
		}()
	}
	if pf := os.Getenv("GOSYM_PROF"); pf != "" {
		f, _ := os.Create(pf)
		pprof.StartCPUProfile(f)
		defer pprof.StopCPUProfile()
	}
	if mf := os.Getenv("GOSYM_MEMPROF"); mf != "" {
		defer func() {
			f, _ := os.Create(mf)
			pprof.WriteHeapProfile(f)
			f.Close()
		}()
	}
	for _, h := range fs.Args() {
		st, err := engine.Explore(p, h, engine.Opts{MaxSteps: *steps, MaxDepth: 400, MaxLoop: 100000, MapOrderSymbolic: *mapsym, WantReach: true, Params: pm, BoundIsViolation: *boundViol}, *workers, *solver, 10000, *maxPaths)
		if err != nil {
			fmt.Println("error:", err)
			os.Exit(2)
		}
		fmt.Printf("%s: paths=%d ends=%v steps=%d obligations=%d discharged=%d violations=%d queries=%d solver=%v wall=%v\n",
			h, st.Paths, st.ByEnd, st.Steps, st.Obligations, st.Discharged, st.NViol, st.Queries, st.SolverTime, st.Wall)
		var keys []string
		for k := range st.Unsupported {
			keys = append(keys, k)
		}
		sort.Strings(keys)
		for _, k := range keys {
			fmt.Printf("  unsupported x%d: %s\n", st.Unsupported[k], k)
		}
		for k, n := range st.BoundMsgs {
			fmt.Printf("  bound x%d: %s\n", n, k)
		}
		for i, v := range st.Violations {
			if i >= 5 && os.Getenv("GOSYM_ALLVIOL") == "" {
				break
			}
			fmt.Printf("  VIOL: %s notes=%v inputs=%v\n", v.Msg, v.Notes, v.Inputs)
		}
		for _, u := range st.Undischarged {
			fmt.Println("  undischarged:", u)
		}
		for _, se := range st.SolverErrors {
			fmt.Println("  solver error:", se)
		}
		if len(st.Reach) > 0 {
			fmt.Printf("  reach: %v %v\n", st.Reach[0].Notes, st.Reach[0].Inputs)
		}
	}
}
