package main

var propSpecs = map[string]*PropSpec{}

func reg(p *PropSpec) { propSpecs[p.ID] = p }

func init() {
	reg(&PropSpec{
		ID: "C13", Prefix: "vh_C13_",
		Quick:    Tier{Params: map[string]int{"ref_len": 3}},
		Thorough: Tier{Params: map[string]int{"ref_len": 4}},
		Bounds: []string{
			"reference strings of every length 0..ref_len, every byte an unconstrained 8-bit symbolic value (no alphabet restriction), plus the zero Ref",
			"net/url.Parse/String/escape/unescape, strings.*, jsonreference.New/NormalizeURL, jsonpointer.New executed from SSA on the symbolic bytes",
		},
		Outside:     []string{"reference strings longer than ref_len bytes", "strings that are not valid UTF-8 (cannot appear in a JSON document)", "authorities with userinfo, opaque URLs (excluded by the property text)"},
		Assumptions: []string{"vAssume(u.User == nil), vAssume(u.Opaque == \"\"): the property restricts authorities to host[:port]", "vAssume(utf8.ValidString(ref)) in the codec harness"},
		Models:      []string{"M-regexp: the two regular expressions of jsonreference/internal as Go reference functions (harness/models.go)", "M-json: encoding/json on map[string]interface{} and string (value level; hand-built text parsed by a reference string-literal decoder)", "M-gob: gob of a []byte is the identity", "pure scalar callees (shouldEscape, ishex, unhex, ...) are summarised into ite-terms by exhaustive sub-exploration"},
	})
	reg(&PropSpec{
		ID: "C20", Prefix: "vh_C20_",
		Quick:    Tier{Params: map[string]int{"enum_max": 2, "cb_max": 2}},
		Thorough: Tier{Params: map[string]int{"enum_max": 3, "cb_max": 3}},
		Bounds: []string{
			"enum: nil, empty, or 1..enum_max opaque elements; callbacks: 0..cb_max per clear",
			"every pointer validation: nil or pointer to an unconstrained 64-bit value; booleans and opaque strings unconstrained",
			"patternProperties: nil, empty, or one entry",
			"no loop or recursion bound is hit (unwinding checked: any exceeded bound is reported as INCONCLUSIVE)",
		},
		Outside:     []string{"enum lists longer than enum_max, more than cb_max callbacks, patternProperties maps with more than one entry"},
		Assumptions: []string{"opaque strings are compared only with ==/!= by the code under test (enforced: any other use closes the path as unsupported)", "float64 values are only copied, never computed on (enforced likewise)"},
		Models:      []string{"none: all of validations.go and the Schema accessors are executed from SSA; only vDeepEq (structural equality) is an executor primitive"},
	})
}
