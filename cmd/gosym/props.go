package main

var propSpecs = map[string]*PropSpec{}

func reg(p *PropSpec) { propSpecs[p.ID] = p }

func init() {
	reg(&PropSpec{
		ID: "C20", Prefix: "vh_C20_",
		Quick:    Tier{Params: map[string]int{"enum_max": 2, "cb_max": 2}},
		Thorough: Tier{Params: map[string]int{"enum_max": 3, "cb_max": 3}},
		Bounds: []string{
			"enum: nil, empty, or 1..enum_max opaque elements; callbacks: 0..cb_max per clear",
			"every pointer validation: nil or pointer to an unconstrained 64-bit value; booleans and opaque strings unconstrained",
			"patternProperties: nil, empty, or one entry",
			"no loop or recursion bound is hit (unwinding checked: any exceeded bound is reported as INCONCLUSIVE)",
		},
		Outside:     []string{"enum lists longer than enum_max, more than cb_max callbacks, patternProperties maps with more than one entry"},
		Assumptions: []string{"opaque strings are compared only with ==/!= by the code under test (enforced: any other use closes the path as unsupported)", "float64 values are only copied, never computed on (enforced likewise)"},
		Models:      []string{"none: all of validations.go and the Schema accessors are executed from SSA; only vDeepEq (structural equality) is an executor primitive"},
	})
}
