package main

var propSpecs = map[string]*PropSpec{}

func reg(p *PropSpec) { propSpecs[p.ID] = p }

func init() {
	reg(&PropSpec{
		ID: "C01", Cross: "z3-new", Prefix: "vh_C01_",
		Quick:    Tier{Params: map[string]int{"depth": 1, "exts": 1, "extras": 1, "name_len": 1, "sizes": 1, "any_shapes": 2, "vary": 1, "vary_points": 40, "vary_alts": 4}},
		Thorough: Tier{Params: map[string]int{"depth": 1, "exts": 1, "extras": 1, "name_len": 1, "sizes": 1, "any_shapes": 2, "vary": 1, "vary_points": 40, "vary_alts": 4}},
		Bounds: []string{
			"one harness per object kind (17 kinds): a symbolic normal-form document whose optional members each have a solver variable for presence (all 2^n keyword combinations in one path), symbolic leaf values (opaque strings, 64-bit numbers, booleans)",
			"vendor extension / unknown-keyword / property / path names: prefix + name_len symbolic bytes over {a Z 0 \" \\ / ~ % space ^ $ { } 0x01 0xC3 0xA9} + index digit; exts extension members, extras unknown schema keywords, containers of 1..sizes entries",
			"nesting depth 1: children are minimal documents of their kind (required members only)",
			"secondary choices (payload shapes, union forms, enum values, container sizes) vary one choice point at a time (vary=1), not as a product",
		},
		Outside:     []string{"deeper nesting with fully symbolic children", "interactions between two non-default secondary choices", "longer names", "YAML", "numbers that are not exactly representable (excluded by the property)"},
		Assumptions: []string{"normal form as stated by the property (required members present, non-empty strings, true booleans, non-empty containers, finite numbers, names not folding onto keywords: names end in a digit)", "$ref members hold one of three concrete canonical references"},
		Models:      []string{"M-json (struct field tables from go/types tags of the current source; Marshaler/Unmarshaler bodies from SSA; hand-built text parsed by the rope parser)", "M-swag.ConcatJSON", "M-reflect (swag name provider)", "lazy presence for map-range loops (fork only if the loop body has an effect)"},
	})
	reg(&PropSpec{
		ID: "C06", Cross: "z3-new", Prefix: "vh_C06_", Repeat: 40,
		Quick:    Tier{Params: map[string]int{"exts": 1, "extras": 1, "name_len": 1, "sizes": 1, "any_shapes": 2, "vary": 0, "props": 2, "ref_len": 3}},
		Thorough: Tier{Params: map[string]int{"exts": 1, "extras": 1, "name_len": 1, "sizes": 1, "any_shapes": 2, "vary": 0, "props": 2, "ref_len": 4}},
		Bounds: []string{
			"every vendor extension held by a decoded model is a member of the encoder output under exactly its own name (extension names over the C01 name alphabet, upper case included)",
			"vh_C06_nodup_<Kind>: values decoded from the symbolic normal-form documents of C01 (presence of every keyword symbolic); output must be valid JSON without repeated member names",
			"vh_C06_builders: values built by AddExtension x2 (keys x-/X- + symbolic byte), SetProperty x2, RespondsWith x2 + default, AddHeader x2, AddExample",
			"vh_C06_order: schema with 2..props properties, names one symbolic byte each (distinct), x-order absent / float64 in {-2..2} / integer string in {-2..2} / non-numeric string; encoded twice with every map iteration order explored independently (symbolic permutations); byte equality and (has x-order, x-order, name) order asserted",
			"vh_C06_refstring: $ref text of 0..ref_len unconstrained bytes inside a schema",
		},
		Outside:     []string{"more than props properties, x-order values outside {-2..2} or non-integral floats (int() truncation ties), longer names, builder sequences longer than listed", "'many runs of randomised map iteration' (sampling) is replaced by the symbolic permutation; native replays repeat 40 times"},
		Assumptions: []string{"property names pairwise distinct", "valid UTF-8"},
		Models:      []string{"M-json", "M-swag.ConcatJSON", "sort.Sort and OrderSchemaItems.Less (with its recover) executed from SSA", "map iteration = symbolic permutation"},
	})
	reg(&PropSpec{
		ID: "C07", Cross: "z3-new", Prefix: "vh_C07_",
		Quick:    Tier{Params: map[string]int{"exts": 1, "extras": 0, "name_len": 1, "sizes": 1, "any_shapes": 2, "vary": 0}},
		Thorough: Tier{Params: map[string]int{"exts": 1, "extras": 0, "name_len": 1, "sizes": 1, "any_shapes": 2, "vary": 0}},
		Bounds: []string{
			"one harness per model type (17) plus the union helper types: the symbolic document of C01 (presence of every keyword symbolic) in which one member at a time is replaced by a value of every JSON kind (null, bool, integer/float, empty/odd string, empty/mixed arrays, empty/odd objects incl. $ref:1, type:[\"\"], items:[]), duplicated with a second value of another kind, or spelled with another letter case (totality only)",
			"decode -> encode -> decode -> encode executed from SSA; any interpreted panic, exceeded loop/recursion bound is reported",
		},
		Outside:     []string{"syntactically invalid bytes (rejected by encoding/json before any repo code runs: model rule), two corrupted members at once, deep nesting (encoding/json's own depth limit), extreme number literals"},
		Assumptions: []string{"encoding/json checks syntax before calling UnmarshalJSON", "numbers: integer literals decode into int64 fields; a float literal decodes into an int64 field on a symbolic 'is integral' bit"},
		Models:      []string{"M-json", "M-swag.ConcatJSON", "M-reflect"},
	})
	reg(&PropSpec{
		ID: "C15", Cross: "z3-new", Prefix: "vh_C15_", Repeat: 30,
		Quick:    Tier{Params: map[string]int{"exts": 1, "extras": 1, "name_len": 1, "sizes": 1, "any_shapes": 2, "vary": 0, "case_twin": 1, "payload_fork": 1, "ext_upper": 1}},
		Thorough: Tier{Params: map[string]int{"exts": 1, "extras": 1, "name_len": 1, "sizes": 1, "any_shapes": 2, "vary": 0, "case_twin": 1, "payload_fork": 1, "ext_upper": 1}},
		Bounds: []string{
			"a second pointer step (description, type, name, $ref) on the Go value the first step returned, compared with the JSON form",
			"per kind: the symbolic normal-form document of C01 is decoded; for every keyword of the kind and every symbolic member name (extension, its case twin, unknown keyword) used as a one-token pointer, jsonpointer.GetForToken on the typed value (real JSONLookup + name provider from SSA, M-reflect) is compared with the member of the value's own JSON encoding",
			"responses: tokens default, 200, 404, 099, 600, 99",
			"paths: tokens are the path names (\"/\" + one symbolic byte + digit: /~0, /~1, /%0, /{0 among them) and the extension name",
			"ext_upper: the first byte of the top-level extension name is a solver variable over {x, X} for every kind except schema, swagger, operation, parameter (path count)",
			"asserted direction: the JSON form has the member => the typed lookup succeeds with an equal value (a typed lookup that yields a zero value for an absent optional member is not an error)",
		},
		Outside:     []string{"multi-token pointers are covered by induction over the pointer (each step lands on a kind with its own harness); numeric tokens into arrays; $ref members (excluded by the property)"},
		Assumptions: []string{"as C01 normal form"},
		Models:      []string{"M-json", "M-reflect (TypeOf/ValueOf/Indirect/Kind/FieldByName/MapIndex/Index/Interface/NumField/Field/Tag)", "swag name provider executed from SSA"},
	})
	reg(&PropSpec{
		ID: "C14", Cross: "z3-new", Prefix: "vh_C14_",
		Quick:    Tier{Params: map[string]int{"exts": 1, "extras": 1, "name_len": 1, "sizes": 1, "any_shapes": 1, "ref_primary": 1, "sec_reqs": 2, "sec_empty": 1, "vary": 0}},
		Thorough: Tier{Params: map[string]int{"exts": 1, "extras": 1, "name_len": 1, "sizes": 1, "any_shapes": 1, "ref_primary": 1, "sec_reqs": 2, "sec_empty": 1, "vary": 0}},
		Bounds: []string{
			"per type (Schema, Parameter, Items, Header, Response, Responses, Operation, PathItem, Paths, Swagger; a security requirement may be the empty object): the symbolic normal-form document of C01 (every keyword's presence symbolic, numeric validations unconstrained 64-bit values incl. zero) is decoded, sent through gob.Encoder/Decoder, and the JSON encodings before and after are compared member by member",
			"free-form payloads (default, example, enum, extensions, unknown keywords, examples) are one rich value: string, number, booleans, nulls, empty objects, nesting, zero, and (under a symbolic bit, no fork) empty arrays",
			"security: two requirements, the second with an optional scheme with an empty scope list; $ref in {#/definitions/Pet, other.json#/definitions/Pet, http://h.example/s.json, #, \"\"}",
		},
		Outside:     []string{"decoding into a non-zero target value", "payload nesting deeper than 3, longer lists"},
		Assumptions: []string{"as C01 normal form, plus structurally symbolic payloads"},
		Models:      []string{"M-gob: transmit function (exported fields; zero scalars and pointers to zero scalars not sent; empty slices not sent; empty maps kept; registered interface types; GobEncoder/GobDecoder methods executed from SSA). The rules are those probed against encoding/gob in go1.23; every witness is replayed through the real gob", "M-json"},
	})
	reg(&PropSpec{
		ID: "C02", Prefix: "vh_C02_", MaxSteps: 20000000,
		Quick:    Tier{Params: map[string]int{"kwpos": 4, "spellings": 2, "slots": 3, "nested_targets": 1}},
		Thorough: Tier{Params: map[string]int{"kwpos": 6, "spellings": 2, "slots": 3, "nested_targets": 1, "chain_orders": 1, "import_orders": 1}},
		Bounds: []string{
			"schemas family: three documents (root with definitions A,B and a leaf named a; sub/a.json with \"C d\"; a third document with D in another directory tree), either all file: URLs or http URLs with the third document on another port of the same host; each of A,B,C holds, at a keyword position chosen among kwpos of {properties, items, tuple items, allOf, anyOf, oneOf, not, additionalProperties, additionalItems, patternProperties, dependencies, definitions}, either nothing or a $ref to one of A,B,C,D (in one of `spellings` spellings), to the whole document sub/a.json, or to a pointer below a definition (fragment-only / relative path with ../ / absolute URL); all combinations explored (every cycle topology over these nodes arises); property name needs ~0/~1 escaping",
			"chains family: root parameters/responses/path item that reference (or not) parameters/responses/path items of two other documents, second hops local to those documents or back into the root; same names with different content in different documents so that a wrong-document resolution changes the meaning",
			"imports family: four documents in four directories; a path item imported from another directory whose path-level parameter, operation parameter, 200 and default responses hold (3 alternatives each) a sibling-file reference, a fragment-only reference, an inline element with a relative schema reference, or a back reference into the root; parameter and response chains root -> sub -> deep -> far (each hop inline or a relative reference); three modes (parameter side, response side, all four members of the imported item at once)", "ops family: one document, a path item with all seven methods each with a referenced parameter and response, a path-level parameter, an operation without a responses object",
			"every definition carries an x-leaf object; targets include a pointer to the x-leaf of a definition of another document",
			"AbsoluteCircularRef symbolic; iteration order of every map of the object model (definitions, properties, parameters, responses, paths) is a symbolic permutation in the schemas family",
			"loader oracle: whatever the outcome, every URL asked of the loader is the RFC 3986 target of some $ref of the world read from the document that contains it",
			"oracle (harness Go code, executed by the same engine, natively on replay): coinductive comparison of the unfoldings of input and output root documents, following $refs with net/url ResolveReference against the URL of the containing document and RFC 6901 evaluation on generic JSON",
		},
		Outside:     []string{"more documents / definitions / slots, several slots per definition, schemas with id (C04), YAML, Windows paths, byte-level URL arithmetic for arbitrary strings (C11/C12)"},
		Assumptions: []string{"all strings of the world are concrete; selectors are explored exhaustively (finite-domain choice), options and map orders symbolically", "expansion succeeds (failures are C08's subject)"},
		Models:      []string{"M-json", "M-reflect", "M-regexp", "lazy meta-schemas", "M-sync (sequential)"},
	})
	reg(&PropSpec{
		ID: "C03", Prefix: "vh_C03_", MaxSteps: 20000000,
		Quick:    Tier{Params: map[string]int{"kwpos": 4, "spellings": 2, "slots": 3, "nested_targets": 1}},
		Thorough: Tier{Params: map[string]int{"kwpos": 6, "spellings": 2, "slots": 3, "nested_targets": 1}},
		Bounds: []string{
			"schemas family: three documents (root with definitions A,B and a leaf named a; sub/a.json with \"C d\"; a third document with D in another directory tree), either all file: URLs or http URLs with the third document on another port of the same host; each of A,B,C holds, at a keyword position chosen among kwpos of {properties, items, tuple items, allOf, anyOf, oneOf, not, additionalProperties, additionalItems, patternProperties, dependencies, definitions}, either nothing or a $ref to one of A,B,C,D (in one of `spellings` spellings), to the whole document sub/a.json, or to a pointer below a definition (fragment-only / relative path with ../ / absolute URL); all combinations explored (every cycle topology over these nodes arises); property name needs ~0/~1 escaping",
			"chains family: root parameters/responses/path item that reference (or not) parameters/responses/path items of two other documents, second hops local to those documents or back into the root; same names with different content in different documents so that a wrong-document resolution changes the meaning",
			"AbsoluteCircularRef symbolic; iteration order of every map of the object model (definitions, properties, parameters, responses, paths) is a symbolic permutation in the schemas family",
			"imports family: four documents in four directories; a path item imported from another directory whose path-level parameter, operation parameter, 200 and default responses hold (3 alternatives each) a sibling-file reference, a fragment-only reference, an inline element with a relative schema reference, or a back reference into the root; parameter and response chains root -> sub -> deep -> far (each hop inline or a relative reference); three modes (parameter side, response side, all four members of the imported item at once)", "ops family: one document, a path item with all seven methods each with a referenced parameter and response, a path-level parameter, an operation without a responses object",
			"local document: a single in-memory root expanded with nil options or options without RelativeBase (remaining $refs read as pointers into the document)", "targets include a pointer to the x-leaf object inside a definition of another document",
			"oracle: cycle analysis of the input reference graph on generic JSON (a node is on a cycle iff some chain of references from it reaches it or a container of it); every $ref of the output must resolve from the root location to such a node, have the absolute / root-relative form the option prescribes; acyclic inputs must come out $ref-free and identical under a second, independently ordered expansion",
		},
		Outside:     []string{"as C02"},
		Assumptions: []string{"as C02"},
		Models:      []string{"as C02"},
	})
	reg(&PropSpec{
		ID: "C04", Prefix: "vh_C04_", MaxSteps: 2500000, MaxDepth: 300, BoundIsViol: true,
		Quick:    Tier{Params: map[string]int{"kwpos": 2, "spellings": 2}},
		Thorough: Tier{Params: map[string]int{"kwpos": 4, "spellings": 2}},
		Bounds: []string{
			"hostile worlds: definitions A,B (root) and C (sub-directory document), each holding at a keyword position nothing or a $ref to A, B, C (2/3 spellings), to a missing pointer, a missing document, or a string / number / array / boolean target; A carries no id, an absolute id, a relative-file id, a relative-directory id or a fragment id; optionally a parameter, response or path item that refers to itself",
			"entry points: ExpandSpec (SkipSchemas, ContinueOnError symbolic), ExpandSchema, ExpandSchemaWithBasePath, ExpandParameter(WithRoot), ExpandResponse(WithRoot)",
			"work bound: 2.5e6 interpreted SSA instructions and call depth 300 per path (a terminating expansion of these worlds needs < 6e5); exceeding it is reported as possible non-termination and confirmed natively under an 8 s watchdog",
		},
		Outside:     []string{"larger graphs, the 'random large graphs' of the property text (no sampling in this technique)", "stack exhaustion is observed as call-depth overrun, not as a real stack overflow"},
		Assumptions: []string{"as C02"},
		Models:      []string{"as C02"},
	})
	reg(&PropSpec{
		ID: "C08", Prefix: "vh_C08_", MaxSteps: 20000000, Repeat: 60,
		Quick:    Tier{Params: map[string]int{"kwpos": 2, "spellings": 2}},
		Thorough: Tier{Params: map[string]int{"kwpos": 5, "spellings": 2}},
		Bounds: []string{
			"worlds: root definitions A (slot: reference to B, to C in a sub-directory document, to D in a third document, to a missing pointer, a missing document, a string / number / array / boolean target, or nothing), B (slot: C or nothing), a root response whose schema refers to A; C (slot: a pointer missing in its own document, D, back to B, or nothing)",
			"deep: every one of the 12 keyword positions with a good / dangling / missing-document / non-object reference one level below it", "ops: the ops family (C02) where the parameter reference of the operation without responses may dangle or name a missing document",
			"loader failure bits for the two non-root documents and ContinueOnError are symbolic (decided lazily, per path, by the solver)",
			"oracle: strict mode - error iff the unfolding of the root runs into a $ref that does not resolve to an object; continue mode - no error, and the output is bisimilar to the input where an unresolvable $ref must be the same text on both sides",
		},
		Outside:     []string{"null targets (not among the kinds the property lists)", "more documents and slots"},
		Assumptions: []string{"as C02"},
		Models:      []string{"as C02"},
	})
	reg(&PropSpec{
		ID: "C18", Cross: "z3-new", Prefix: "vh_C18_", MaxSteps: 20000000,
		Quick:    Tier{Params: map[string]int{"kwpos": 2, "spellings": 2}},
		Thorough: Tier{Params: map[string]int{"kwpos": 2, "spellings": 2}},
		Bounds: []string{
			"id scope (vh_C18_idscope): a sub-schema with a relative / absolute / folder id, inner references fragment-only, to a sibling document, or to the id's own URL; no cache, fresh cache, reused cache",
			"worlds: root definitions A,B and a sub-directory definition C with reference slots (targets A,B,C,D; cross-document cycles included), a third document with D",
			"cache states: none (reference run), fresh empty cache, cache pre-loaded with a symbolic subset of the three documents (one solver bit per document), cache reused from an expansion of definition B of the same root; entry point ExpandSchemaWithBasePath on definition A",
			"observed: result bytes, success, loader call log (each URL at most once per expansion, pre-loaded URLs never)",
		},
		Outside:     []string{"longer reuse sequences, ExpandSchema with a typed root (C10)", "id-scoped pseudo documents"},
		Assumptions: []string{"the caller-supplied cache is a plain map-backed ResolutionCache"},
		Models:      []string{"as C02"},
	})
	reg(&PropSpec{
		ID: "C10", Cross: "z3-new", Prefix: "vh_C10_", MaxSteps: 20000000,
		Quick:    Tier{Params: map[string]int{"kwpos": 2}},
		Thorough: Tier{Params: map[string]int{"kwpos": 12}},
		Bounds: []string{
			"single-document worlds: definitions A,B with reference slots (A,B: all cycle shapes on two nodes), a parameter and a response that are inline (schema -> A) or a $ref to a second parameter / response (schema -> B)",
			"entry points: ExpandSchema with typed root, generic root, warm cache, cache previously used with another root; ExpandSchemaWithBasePath (with and without base location); ExpandParameterWithRoot; ExpandResponseWithRoot; the element is decoded separately (no shared storage)",
			"oracle: bisimulation between the element in its root and the result placed back into the root; C03's cut-point condition on remaining $refs; root JSON identical before/after; caller's options field-wise unchanged",
		},
		Outside:     []string{"multi-document roots for the WithRoot entry points (they cannot reach other documents by design)", "writes that leave the root's JSON unchanged"},
		Assumptions: []string{"as C02"},
		Models:      []string{"as C02"},
	})
	reg(&PropSpec{
		ID: "C09", Cross: "z3-new", Prefix: "vh_C09_", MaxSteps: 30000000,
		Quick:    Tier{Params: map[string]int{"spellings": 2}},
		Thorough: Tier{Params: map[string]int{"spellings": 3}},
		Bounds: []string{
			"worlds: a root whose parameter, response and one path item are imported from two other documents (plain directories, or a sibling directory whose name starts with the name of the root's directory plus a deeper directory); the schemas of the imported parameter / response / operation point (symbolically chosen, 2/3 spellings) back to the root, to their own document, to the third document, or nowhere",
			"also on the imports family (3 modes) and the ops family of C02",
			"checks: no $ref at parameter/response/path-item level, definitions byte-identical, every kept schema $ref resolves from the root location (fragment-only into the root), bisimulation with the input, and ExpandSpec(full) of the result with the same options value equals the direct full expansion",
		},
		Outside:     []string{"cycles under skip-schemas", "more imports"},
		Assumptions: []string{"as C02"},
		Models:      []string{"as C02"},
	})
	reg(&PropSpec{
		ID: "C16", Cross: "z3-new", Prefix: "vh_C16_", MaxSteps: 400000000,
		Quick:    Tier{Params: map[string]int{"kwpos": 1, "spellings": 1, "history": 1}},
		Thorough: Tier{Params: map[string]int{"kwpos": 1, "spellings": 1, "history": 1}},
		Bounds: []string{
			"histories: a reference call on world W2 from pristine package state, then 1..history calls on worlds W1 (every reference graph of the small family, same document locations as W2 but other content), then the reference call again on W2; calls: ExpandSpec, ExpandSchema with typed root, ResolveRefWithBase, ExpandSchemaWithBasePath; no caller-supplied cache",
			"asserted: identical result, success and loader call log for the repeated call; the caller's options unchanged after every call",
			"meta-schemas (decoded for real from /repo/schemas in this check): http://swagger.io/v2/schema.json#/definitions/info resolves to the same value before and after other calls and is never requested from the loader",
			"induction: every path starts from the pristine package state established by the package initialisers; the repeated-call equality after an arbitrary bounded history, for every history of the bound, is the inductive step for longer histories only under the (unchecked) assumption that package state after a call equals pristine state - stated, not proved",
		},
		Outside:     []string{"longer histories, other entry points as first call"},
		Assumptions: []string{"M-os: no file system (the default loader fails)", "as C02"},
		Models:      []string{"as C02, without lazy meta-schemas"},
	})
	reg(&PropSpec{
		ID: "C05", Prefix: "vh_C05_", MaxSteps: 20000000,
		Quick:    Tier{Params: map[string]int{"name_len": 2}},
		Thorough: Tier{Params: map[string]int{"name_len": 3}},
		Bounds: []string{
			"name alphabet / ~ % # ? { } space a 0 1 e-acute; the element lives in the root, in a sibling document, or in a document whose absolute URL carries a query (documents differing by the query only hold other contents)",
			"two documents (root, sub/a.json); the element name is 1..name_len symbolic bytes over {/ ~ % # ? { } space a 0xC3 0xA9}; kinds: definition, parameter, response, path item (/name), schema under the mixed-case root extension x-Shared-Models; target in the root or in the other document; existing element or a missing sibling name; root supplied typed, generic, or by location only; ContinueOnError symbolic",
			"the reference text is built by the oracle: [doc] # / section / pct(esc6901(name)); entry points ResolveRefWithBase, ResolveParameterWithBase, ResolveResponseWithBase, ResolvePathItemWithBase",
			"asserted: error iff nothing is designated; the result's JSON equals the designated sub-document member-wise (nested $ref intact); the typed root's JSON is unchanged",
		},
		Outside:     []string{"ResolveItems, nested pointers through properties/items/allOf (the pointer steps themselves are C15's subject), parent-directory and absolute-URL documents (C12), longer names"},
		Assumptions: []string{"valid UTF-8 names"},
		Models:      []string{"as C02; documents are served as abstract JSON texts with a symbolic member name"},
	})
	reg(&PropSpec{
		ID: "C19", Cross: "z3-new", Prefix: "vh_C19_",
		Quick:    Tier{Params: map[string]int{"free": 1, "ref_children": 1, "exts": 1, "extras": 0, "name_len": 1, "sizes": 1, "any_shapes": 1, "vary": 0}},
		Thorough: Tier{Params: map[string]int{"free": 1, "ref_children": 1, "exts": 1, "extras": 0, "name_len": 1, "sizes": 1, "any_shapes": 1, "vary": 0}},
		Bounds: []string{
			"per kind (16): the symbolic document of C01 in free form - required and optional strings may be empty, booleans take both values, string arrays and scope maps may be empty, every keyword's presence symbolic; validity against the shipped meta-schema (schemas/v2/schema.json + draft-04, compiled at check time into a solver predicate: type, enum, required, properties, patternProperties, additionalProperties, items, minItems, minProperties, oneOf/anyOf/allOf/not, $ref) is assumed for the input and asserted for the output of decode/encode",
			"every witness is re-judged by python jsonschema Draft4Validator in the native replay (input valid, output invalid)",
			"expansion half (vh_C19_expand_*): a two-document specification valid by construction (shared parameters/responses, a referenced path item, body and response schemas, one cyclic schema; references from the root and from the second document); one element - parameter, response, schema or operation - is the symbolic free-form document; ExpandSpec with an in-memory loader",
		},
		Outside:     []string{"expansion half: more than one symbolic element at a time, a symbolic path item (did not finish), integer keywords beyond +-2^53 (they lose precision in the resolver's generic decode; cut by an assumption)", "format and uniqueItems are not checked (as a Draft4Validator without format checker does for format)", "deeper nesting"},
		Assumptions: []string{"children are minimal valid documents of their kind", "expansion half: the root document validates AND its plain re-encoding validates (the round-trip half is decided by its own harnesses, which own the known findings); only successful expansions are judged"},
		Models:      []string{"M-json (float view of a symbolic integer token = exact int->binary64 circuit for |i| <= 2^53)", "meta-schema interpreter (internal/engine/jsonschema.go) cross-checked by python jsonschema on every witness"},
	})
	reg(&PropSpec{
		ID: "C11", Prefix: "vh_C11_",
		Quick:    Tier{Params: map[string]int{"segs": 2, "seg_len": 2}},
		Thorough: Tier{Params: map[string]int{"segs": 3, "seg_len": 2}},
		Bounds: []string{
			"canonical location: file:///, http://h.example/ or https://h.example/ followed by 1..segs path segments of 1..seg_len symbolic bytes over {a b Z 0 9 - _ . ~ 0xC3 0xA9}; file locations optionally under the working directory",
			"one re-spelling operator applied at a symbolic position: ./ insertion, x/../ insertion, doubled slash, file:/ form, bare absolute path, upper-case scheme, trailing fragment, trailing query (files), path relative to the working directory (with or without ./)",
			"observed through ResolveRefWithBase(nil, ref, {RelativeBase, PathLoader}) for ref in {\"\", #/definitions/y, sib.json, ../up.json#/a}; loader refuses every document",
		},
		Outside:     []string{"more/longer segments, segments containing reserved characters, two operators combined, Windows paths, expansion entry points (covered with the reference-graph worlds)"},
		Assumptions: []string{"working directory is /cwd/w in the model (os.Getwd intrinsic); native replay uses the real one", "segments are not . or .. and are valid UTF-8"},
		Models:      []string{"M-regexp", "M-os (Getwd)", "lazy meta-schemas"},
	})
	reg(&PropSpec{
		ID: "C12", Prefix: "vh_C12_",
		Quick:    Tier{Params: map[string]int{"ref_len": 2, "alpha_len": 4, "abs_tail": 2}},
		Thorough: Tier{Params: map[string]int{"ref_len": 2, "alpha_len": 5, "abs_tail": 2, "hop_len": 4}},
		Bounds: []string{
			"two hops (vh_C12_twohops): 4 base / first-hop pairs (two with a target URL that has the referring URL as a string prefix), second reference of 1..hop_len symbolic bytes over the alphabet, served first document, refusing loader for the rest",
			"vh_C12_locate: $ref strings of every length 0..ref_len with every byte unconstrained (256 values)",
			"vh_C12_alphabet: $ref strings of length ref_len+1..alpha_len over the alphabet {. / % 2 5 F e # a space 0xC3 0xA9} (the segment material the property names: plain, dotted, ./.., escapes, non-ASCII, fragment)",
			"vh_C12_absolute: one of five concrete scheme/authority prefixes (file:///, http://o.example/, https://o.example/d/, FILE:///, http://h.example/r/) followed by 0..abs_tail unconstrained bytes",
			"four base documents: file:///root.json, file:///a/b/base.json, http://h.example/r/base.json, https://h.example:8443/r/s/base.json",
			"ResolveRefWithBase(nil, ref, {RelativeBase, PathLoader}) executed from SSA with net/url, path, strings; the oracle url.ResolveReference is executed from SSA on the same symbolic bytes",
		},
		Outside:     []string{"longer references, other bases, references with query/userinfo/opaque part, network-path references (//host/p), scheme-only forms such as http:x, directories (path ending in /, /., /..)", "the 'random longer ones' of the property text (sampling is not part of this technique)"},
		Assumptions: []string{"valid UTF-8", "no escaped dot (%2e): RFC 3986 6.2.2.2 makes it equivalent to '.', the implementation agrees, the net/url oracle does not", "the loader refuses every document (so that exactly the located URL is observed)", "expected URL is compared after the canonicalisation of reference values checked by C13 (lower-case scheme/host, default port, duplicate slashes)"},
		Models:      []string{"M-regexp", "M-os: working directory /cwd/w", "lazy meta-schemas (the two built-in cache entries are placeholders)", "M-json for the loader result path (never reached: loader fails)"},
	})
	reg(&PropSpec{
		ID: "C13", Prefix: "vh_C13_",
		Quick:    Tier{Params: map[string]int{"ref_len": 3}},
		Thorough: Tier{Params: map[string]int{"ref_len": 4}},
		Bounds: []string{
			"reference strings of every length 0..ref_len, every byte an unconstrained 8-bit symbolic value (no alphabet restriction), plus the zero Ref",
			"net/url.Parse/String/escape/unescape, strings.*, jsonreference.New/NormalizeURL, jsonpointer.New executed from SSA on the symbolic bytes",
		},
		Outside:     []string{"reference strings longer than ref_len bytes", "strings that are not valid UTF-8 (cannot appear in a JSON document)", "authorities with userinfo, opaque URLs (excluded by the property text)"},
		Assumptions: []string{"vAssume(u.User == nil), vAssume(u.Opaque == \"\"): the property restricts authorities to host[:port]", "vAssume(utf8.ValidString(ref)) in the codec harness"},
		Models:      []string{"M-regexp: the two regular expressions of jsonreference/internal as Go reference functions (harness/models.go)", "M-json: encoding/json on map[string]interface{} and string (value level; hand-built text parsed by a reference string-literal decoder)", "M-gob: gob of a []byte is the identity", "pure scalar callees (shouldEscape, ishex, unhex, ...) are summarised into ite-terms by exhaustive sub-exploration"},
	})
	reg(&PropSpec{
		ID: "C20", Cross: "z3-new", Prefix: "vh_C20_",
		Quick:    Tier{Params: map[string]int{"enum_max": 2, "cb_max": 2}},
		Thorough: Tier{Params: map[string]int{"enum_max": 4, "cb_max": 4}},
		Bounds: []string{
			"enum: nil, empty, or 1..enum_max opaque elements; callbacks: 0..cb_max per clear",
			"every pointer validation: nil or pointer to an unconstrained 64-bit value; booleans and opaque strings unconstrained",
			"patternProperties: nil, empty, or one entry",
			"no loop or recursion bound is hit (unwinding checked: any exceeded bound is reported as INCONCLUSIVE)",
		},
		Outside:     []string{"enum lists longer than enum_max, more than cb_max callbacks, patternProperties maps with more than one entry"},
		Assumptions: []string{"opaque strings are compared only with ==/!= by the code under test (enforced: any other use closes the path as unsupported)", "float64 values are only copied, never computed on (enforced likewise)"},
		Models:      []string{"none: all of validations.go and the Schema accessors are executed from SSA; only vDeepEq (structural equality) is an executor primitive"},
	})
}
