//go:build verif

package spec

import "encoding/json"

// C01 — decode then encode yields the same JSON value, for every normal-form document.

func vC01Check(kind string, doc []byte, target interface{}) {
	err := json.Unmarshal(doc, target)
	if err != nil {
		vNote("decode error: " + err.Error())
	}
	vAssert(err == nil, kind+": a normal-form document fails to decode")
	if err != nil {
		return
	}
	out, err := json.Marshal(target)
	if err != nil {
		vNote("encode error: " + err.Error())
	}
	vAssert(err == nil, kind+": the decoded document fails to encode")
	if err != nil {
		return
	}
	vAssertJSONEq(doc, out, kind+": decode then encode")
}

func vC01Doc(kind string) []byte {
	doc := vJBytes(vBuildDoc(kind, vParam("depth", 1), "d", vDocParams()))
	vBound(vVarCtr <= vParam("vary_points", 24), "vary_points is smaller than the number of choice points of the document")
	return doc
}

func vh_C01_Schema()         { var v Schema; vC01Check("schema", vC01Doc("schema"), &v) }
func vh_C01_Parameter()      { var v Parameter; vC01Check("parameter", vC01Doc("parameter"), &v) }
func vh_C01_Items()          { var v Items; vC01Check("items", vC01Doc("items"), &v) }
func vh_C01_Header()         { var v Header; vC01Check("header", vC01Doc("header"), &v) }
func vh_C01_Response()       { var v Response; vC01Check("response", vC01Doc("response"), &v) }
func vh_C01_Responses()      { var v Responses; vC01Check("responses", vC01Doc("responses"), &v) }
func vh_C01_Operation()      { var v Operation; vC01Check("operation", vC01Doc("operation"), &v) }
func vh_C01_PathItem()       { var v PathItem; vC01Check("pathItem", vC01Doc("pathItem"), &v) }
func vh_C01_Paths()          { var v Paths; vC01Check("paths", vC01Doc("paths"), &v) }
func vh_C01_SecurityScheme() { var v SecurityScheme; vC01Check("securityScheme", vC01Doc("securityScheme"), &v) }
func vh_C01_Info()           { var v Info; vC01Check("info", vC01Doc("info"), &v) }
func vh_C01_Contact()        { var v ContactInfo; vC01Check("contact", vC01Doc("contact"), &v) }
func vh_C01_License()        { var v License; vC01Check("license", vC01Doc("license"), &v) }
func vh_C01_Tag()            { var v Tag; vC01Check("tag", vC01Doc("tag"), &v) }
func vh_C01_ExternalDocs()   { var v ExternalDocumentation; vC01Check("externalDocs", vC01Doc("externalDocs"), &v) }
func vh_C01_XML()            { var v XMLObject; vC01Check("xml", vC01Doc("xml"), &v) }
func vh_C01_Swagger()        { var v Swagger; vC01Check("swagger", vC01Doc("swagger"), &v) }
