//go:build verif

package spec

// C02 — expansion preserves the meaning of every element (input and output reference graphs bisimilar).

func vC02Run(w *vWorld, orders bool) {
	root, ok := w.decodeRoot()
	if !ok {
		return
	}
	abs := vNondetBool("AbsoluteCircularRef")
	vMapOrder(orders)
	err := ExpandSpec(root, &ExpandOptions{RelativeBase: w.root, PathLoader: w.loader, AbsoluteCircularRef: abs})
	vMapOrder(false)
	// "a $ref is always interpreted relative to the document that textually contains it": whatever the
	// outcome, the loader is only ever asked for documents that some $ref of the specification designates
	allowed := w.allowedLoads()
	for _, l := range w.loads {
		if !allowed[l] {
			vNote("loaded: " + l)
		}
		vAssert(allowed[l], "the loader was asked for a document that no $ref of the specification designates (a reference was read relative to the wrong document)")
	}
	if err != nil {
		vNote("expansion error: " + err.Error())
		return // the property is about successful expansions (errors: C08)
	}
	ow, ok := w.outWorld(root)
	vAssert(ok, "the expanded specification does not encode")
	if !ok {
		return
	}
	b := &vBisim{in: w, out: ow, seen: map[vPair]bool{}}
	same := b.eq(vNodeID{w.root, ""}, vNodeID{w.root, ""})
	if !same {
		vNote(b.why)
	}
	vAssert(same, "expansion changed the meaning of the specification (unfoldings differ)")
}

func vh_C02_schemas()         { vC02Run(vWorldSchemas(), true) }
func vh_C02_chain_params()    { vC02Run(vWorldChains(0), vParam("chain_orders", 1) == 1) }
func vh_C02_chain_responses() { vC02Run(vWorldChains(1), vParam("chain_orders", 1) == 1) }
func vh_C02_chain_pathitems() { vC02Run(vWorldChains(2), vParam("chain_orders", 1) == 1) }

func vh_C02_imports_params()    { vC02Run(vWorldImports(0), vParam("import_orders", 0) == 1) }
func vh_C02_imports_responses() { vC02Run(vWorldImports(1), vParam("import_orders", 0) == 1) }

func vh_C02_imports_item()   { vC02Run(vWorldImports(2), vParam("import_orders", 0) == 1) }
func vh_C02_imports_cyclic() { vC02Run(vWorldImports(3), false) }
func vh_C02_keywords()       { vC02Run(vWorldKeywords(), false) }
func vh_C02_ops()            { vC02Run(vWorldOps(false), false) }

func vh_C02_ports()     { vC02Run(vWorldPorts(), true) }
func vh_C02_casetwins() { vC02Run(vWorldCaseTwins(), true) }
