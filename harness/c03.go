//go:build verif

package spec

import (
	"encoding/json"
	"net/url"
	"strings"
)

// C03 — only resolvable cycle cut-points remain; acyclic specifications end $ref-free and deterministic.

// worldCyclic: does any reference reachable from the root document sit on a cycle?
func (w *vWorld) cyclicFrom(start vNodeID) bool {
	seen := map[vNodeID]bool{}
	stack := []vNodeID{start}
	for len(stack) > 0 {
		id := stack[len(stack)-1]
		stack = stack[:len(stack)-1]
		if seen[id] {
			continue
		}
		seen[id] = true
		n, ok := w.node(id)
		if !ok {
			continue
		}
		var ts []vNodeID
		w.refsIn(id, n, &ts)
		for _, t := range ts {
			if w.onCycle(t) {
				return true
			}
			stack = append(stack, t)
		}
	}
	return false
}

func vSameAuthority(a, b string) bool {
	ua, e1 := url.Parse(a)
	ub, e2 := url.Parse(b)
	return e1 == nil && e2 == nil && ua.Scheme == ub.Scheme && ua.Host == ub.Host
}

func vC03Run(w *vWorld, orders bool) {
	root, ok := w.decodeRoot()
	if !ok {
		return
	}
	abs := vNondetBool("AbsoluteCircularRef")
	vMapOrder(orders)
	err := ExpandSpec(root, &ExpandOptions{RelativeBase: w.root, PathLoader: w.loader, AbsoluteCircularRef: abs})
	vMapOrder(false)
	if err != nil {
		return
	}
	out, merr := json.Marshal(root)
	if merr != nil {
		return
	}
	var g interface{}
	if json.Unmarshal(out, &g) != nil {
		return
	}
	var refs [][2]string
	vAllRefs(g, "", &refs)
	cyclic := w.cyclicFrom(vNodeID{w.root, ""})
	if !cyclic {
		vAssert(len(refs) == 0, "an acyclic specification keeps a $ref after full expansion")
	}
	for _, hr := range refs {
		r := hr[1]
		id, ok := vResolveRef(w.root, r)
		_, exists := w.node(id)
		vAssert(ok && exists, "a $ref left by the expansion does not resolve from the root location")
		if !ok || !exists {
			continue
		}
		vAssert(w.onCycle(id), "a $ref left by the expansion designates a node that is not on a reference cycle")
		if abs {
			vAssert(vIsAbsURL(r), "with AbsoluteCircularRef a remaining $ref is not an absolute URL")
		} else {
			if vSameAuthority(id.doc, w.root) { // another scheme or host:port can only be named absolutely
				vAssert(!vIsAbsURL(r), "without AbsoluteCircularRef a remaining $ref is an absolute URL")
			}
			if id.doc == w.root {
				vAssert(strings.HasPrefix(r, "#"), "a remaining $ref into the root document is not fragment-only")
			}
		}
	}
	if !cyclic {
		// determinism: a second expansion under an independent map iteration order gives the same bytes
		root2, _ := w.decodeRoot()
		vMapOrder(orders)
		err2 := ExpandSpec(root2, &ExpandOptions{RelativeBase: w.root, PathLoader: w.loader, AbsoluteCircularRef: abs})
		vMapOrder(false)
		vAssert(err2 == nil, "a second expansion of the same acyclic input fails")
		if err2 == nil {
			out2, _ := json.Marshal(root2)
			vAssert(vJSONBytesEq(out, out2), "two expansions of the same acyclic input differ")
		}
	}
}

func vh_C03_schemas()         { vC03Run(vWorldSchemas(), true) }
func vh_C03_chain_params()    { vC03Run(vWorldChains(0), false) }
func vh_C03_chain_responses() { vC03Run(vWorldChains(1), false) }
func vh_C03_chain_pathitems() { vC03Run(vWorldChains(2), false) }

func vh_C03_imports_params()    { vC03Run(vWorldImports(0), false) }
func vh_C03_imports_responses() { vC03Run(vWorldImports(1), false) }
func vh_C03_imports_item()      { vC03Run(vWorldImports(2), false) }
func vh_C03_imports_cyclic()    { vC03Run(vWorldImports(3), false) }
func vh_C03_keywords()          { vC03Run(vWorldKeywords(), false) }
func vh_C03_ops()               { vC03Run(vWorldOps(false), false) }

func vh_C03_ports()     { vC03Run(vWorldPorts(), true) }
func vh_C03_casetwins() { vC03Run(vWorldCaseTwins(), true) }

// an in-memory document expanded without any location (nil options, or options without RelativeBase): the
// same obligations, the remaining $refs being read as pointers into the document itself
func vh_C03_nobase() {
	w := vWorldLocalDoc()
	root, ok := w.decodeRoot()
	if !ok {
		return
	}
	abs := vNondetBool("AbsoluteCircularRef")
	var opts *ExpandOptions
	if abs || vChoose(2, "opts") == 1 {
		opts = &ExpandOptions{AbsoluteCircularRef: abs}
	}
	vMapOrder(true)
	err := ExpandSpec(root, opts)
	vMapOrder(false)
	vAssert(err == nil, "expansion of an in-memory document whose references are all local fails")
	if err != nil {
		return
	}
	out, merr := json.Marshal(root)
	if merr != nil {
		return
	}
	var g interface{}
	if json.Unmarshal(out, &g) != nil {
		return
	}
	var refs [][2]string
	vAllRefs(g, "", &refs)
	if !w.cyclicFrom(vNodeID{w.root, ""}) {
		vAssert(len(refs) == 0, "an acyclic specification keeps a $ref after full expansion")
	}
	for _, hr := range refs {
		r := hr[1]
		u, perr := url.Parse(r)
		vAssert(perr == nil, "a $ref left by the expansion is not a URI reference")
		if perr != nil {
			continue
		}
		id := vNodeID{w.root, u.Fragment}
		_, exists := w.node(id)
		vAssert(exists, "a $ref left by the expansion does not designate a node of the document")
		if !exists {
			continue
		}
		vAssert(w.onCycle(id), "a $ref left by the expansion designates a node that is not on a reference cycle")
		if abs {
			vAssert(vIsAbsURL(r), "with AbsoluteCircularRef a remaining $ref is not an absolute URL")
		} else {
			vAssert(strings.HasPrefix(r, "#"), "a remaining $ref into the document itself is not fragment-only")
		}
	}
}
