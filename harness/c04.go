//go:build verif

package spec

// C04 — expansion terminates without crashing on every reference graph (ids, dangling and ill-typed
// targets, self-referring parameters / responses / path items; all option combinations, all entry points).
// A panic ends the path as a violation; exceeding the executor's work bound is reported as possible
// non-termination and replayed natively under a watchdog.

var vIDKinds = []string{"", "http://h.example/ids/a.json", "sub/s.json", "sub/", "#a"}

// mode 0: ids x cycles; mode 1: dangling / ill-typed targets; mode 2: self-referring parameter / response / path item
func vWorldHostile(mode int) *vWorld {
	vUseURLSet(0)
	kp := vChoose(vParam("kwpos", 2), "kwpos")
	id, a, b, c := "", "", "", ""
	self := 0
	switch mode {
	case 0:
		id = vIDKinds[vChoose(len(vIDKinds), "idkind")]
		good := []vTarget{{doc: vURoot, frag: "/definitions/A"}, {doc: vURoot, frag: "/definitions/B"}, {doc: vUSub, frag: "/definitions/C%20d"}}
		a = vPickRef("A", vURoot, good)
		b = vPickRef("B", vURoot, good)
		c = vPickRef("C", vUSub, []vTarget{{doc: vURoot, frag: "/definitions/A", single: true}, {doc: vUSub, frag: "/definitions/C%20d", single: true}})
	case 1:
		bad := []vTarget{
			{doc: vURoot, frag: "/definitions/Nope", single: true},    // dangling pointer
			{doc: "file:///w/missing.json", frag: "/x", single: true}, // missing document
			{doc: vURoot, frag: "/info/title", single: true},          // a string
			{doc: vURoot, frag: "/x-num", single: true},               // a number
			{doc: vURoot, frag: "/x-arr", single: true},               // an array
			{doc: vURoot, frag: "/x-bool", single: true},              // a boolean
			{doc: vURoot, frag: "/x-null", single: true},              // null
		}
		a = vPickRef("A", vURoot, bad)
		b = vPickRef("B", vURoot, []vTarget{{doc: vURoot, frag: "/definitions/A", single: true}})
	default:
		self = 1 + vChoose(6, "selfref")
	}
	idm := ""
	if id != "" {
		idm = `,"id":"` + id + `"`
	}
	p0, r0, item := `{"name":"p0","in":"body","schema":{"$ref":"#/definitions/A"}}`, `{"description":"r0","schema":{"$ref":"#/definitions/B"}}`, `{"get":{"parameters":[{"$ref":"#/parameters/P0"}],"responses":{"200":{"$ref":"#/responses/R0"}}}}`
	switch self {
	case 1:
		p0 = `{"$ref":"#/parameters/P0"}`
	case 2:
		r0 = `{"$ref":"#/responses/R0"}`
	case 3:
		item = `{"$ref":"#/paths/~1p"}`
	case 4: // 2-cycles of pure references
		p0 = `{"$ref":"#/parameters/P1"}`
	case 5:
		r0 = `{"$ref":"#/responses/R1"}`
	case 6:
		item = `{"$ref":"#/paths/~1q"}`
	}
	w := &vWorld{root: vURoot, docs: map[string]string{}}
	defA := `{"description":"la"` + idm + vSlotJSON(kp, vRefJSON(a)) + `}`
	w.docs[vURoot] = `{"swagger":"2.0","info":{"title":"t","version":"1"},"x-num":1,"x-arr":[1],"x-bool":true,"x-null":null,"paths":{"/p":` + item + `,"/q":{"$ref":"#/paths/~1p"}},` +
		`"parameters":{"P0":` + p0 + `,"P1":{"$ref":"#/parameters/P0"}},"responses":{"R0":` + r0 + `,"R1":{"$ref":"#/responses/R0"}},` +
		`"definitions":{"A":` + defA + `,"B":` + vDefJSON("lb", kp, vRefJSON(b)) + `}}`
	w.docs[vUSub] = `{"definitions":{"C d":` + vDefJSON("lc", kp, vRefJSON(c)) + `}}`
	w.docs[vUFar] = `{"definitions":{"D":{"description":"ld"}}}`
	return w
}

func vC04Spec(w *vWorld) {
	root, ok := w.decodeRoot()
	if !ok {
		return
	}
	opts := &ExpandOptions{RelativeBase: w.root, PathLoader: w.loader, SkipSchemas: vNondetBool("SkipSchemas"), ContinueOnError: vNondetBool("ContinueOnError")}
	_ = ExpandSpec(root, opts) // any outcome is fine as long as there is one
}

func vh_C04_spec_ids()  { vC04Spec(vWorldHostile(0)) }
func vh_C04_spec_bad()  { vC04Spec(vWorldHostile(1)) }
func vh_C04_spec_self() { vC04Spec(vWorldHostile(2)) }

// the single-element entry points on the same hostile worlds
func vC04Elements(w *vWorld) {
	root, ok := w.decodeRoot()
	if !ok {
		return
	}
	PathLoader = w.loader // entry points without options use the package-level loader
	switch vChoose(6, "entry") {
	case 0:
		s := root.Definitions["A"]
		_ = ExpandSchema(&s, root, nil)
	case 1:
		s := root.Definitions["B"]
		_ = ExpandSchemaWithBasePath(&s, nil, &ExpandOptions{RelativeBase: w.root, PathLoader: w.loader, ContinueOnError: vNondetBool("ContinueOnError")})
	case 2:
		p := root.Parameters["P0"]
		_ = ExpandParameterWithRoot(&p, root, nil)
	case 3:
		p := root.Parameters["P0"]
		_ = ExpandParameter(&p, w.root)
	case 4:
		r := root.Responses["R0"]
		_ = ExpandResponseWithRoot(&r, root, nil)
	default:
		r := root.Responses["R0"]
		_ = ExpandResponse(&r, w.root)
	}
}

func vh_C04_elements_ids()  { vC04Elements(vWorldHostile(0)) }
func vh_C04_elements_bad()  { vC04Elements(vWorldHostile(1)) }
func vh_C04_elements_self() { vC04Elements(vWorldHostile(2)) }

// every keyword position (and the middle of a three-element tuple) with a cycle through it: A -> A, or A -> B -> A
func vWorldCycleAt() *vWorld {
	vUseURLSet(0)
	kp := vChoose(len(vKwPos)+1, "kwpos.all")
	two := vChoose(2, "twocycle") == 1
	tgt := "#/definitions/A"
	if two {
		tgt = "#/definitions/B"
	}
	defA := ""
	if kp == len(vKwPos) {
		defA = `{"description":"la","items":[{"description":"first"},` + vRefJSON(tgt) + `,{"description":"third"}]}`
	} else {
		defA = vDefJSON("la", kp, vRefJSON(tgt))
	}
	w := &vWorld{root: vURoot, docs: map[string]string{}}
	w.docs[vURoot] = `{"swagger":"2.0","info":{"title":"t","version":"1"},"paths":{},` +
		`"definitions":{"A":` + defA + `,"B":{"description":"lb","properties":{"back":{"$ref":"#/definitions/A"}}}}}`
	return w
}

func vh_C04_spec_cycle_at() { vC04Spec(vWorldCycleAt()) }
func vh_C04_schema_cycle_at() {
	w := vWorldCycleAt()
	root, ok := w.decodeRoot()
	if !ok {
		return
	}
	s := root.Definitions["A"]
	if vChoose(2, "entry") == 0 {
		_ = ExpandSchema(&s, root, nil)
	} else {
		_ = ExpandSchemaWithBasePath(&s, nil, &ExpandOptions{RelativeBase: w.root, PathLoader: w.loader, ContinueOnError: vNondetBool("ContinueOnError")})
	}
}
