//go:build verif

package spec

import "encoding/json"

// C05 — resolving a reference returns exactly the designated sub-document (RFC 3986 + RFC 6901 with ~0/~1 and
// percent escapes), an error when it designates nothing, the same answer for typed / generic / location-only roots.

// element names: characters that need pointer or URI escaping
const vC05Alphabet = "/~%#?{} a01\xc3\xa9" // 0 and 1: a name may contain the text of a pointer escape (~0, ~1) literally

func vC05Name(tag string, n int) string {
	s := vNondetStr(tag, n)
	for i := 0; i < n; i++ {
		vAssume(vInSet(s[i], vC05Alphabet))
	}
	vAssume(utf8Valid(s))
	return s
}

// oracle-side escaping: RFC 6901 token, then percent-encoding of everything that is not unreserved
func vEsc6901(s string) string {
	out := make([]byte, 0, 2*len(s))
	for i := 0; i < len(s); i++ {
		switch s[i] {
		case '~':
			out = append(out, '~', '0')
		case '/':
			out = append(out, '~', '1')
		default:
			out = append(out, s[i])
		}
	}
	return string(out)
}

func vPct(s string) string {
	const hex = "0123456789ABCDEF"
	out := make([]byte, 0, 3*len(s))
	for i := 0; i < len(s); i++ {
		c := s[i]
		if c >= 'a' && c <= 'z' || c >= 'A' && c <= 'Z' || c >= '0' && c <= '9' || c == '-' || c == '.' || c == '_' || c == '~' {
			out = append(out, c)
		} else {
			out = append(out, '%', hex[c>>4], hex[c&15])
		}
	}
	return string(out)
}

type vAbsLoader struct {
	docs map[string][]byte
	log  []string
}

func (l *vAbsLoader) load(u string) (json.RawMessage, error) {
	l.log = append(l.log, u)
	d, ok := l.docs[u]
	if !ok {
		return nil, vErrNoDoc
	}
	return json.RawMessage(d), nil
}

func vC05Elem(kind int, label string) vJ {
	o := vJObj()
	switch kind {
	case 5:
		vJAdd(o, true, "$ref", vJStr("#/definitions/Other"))
	case 0, 4: // schema, with a nested $ref that must stay as it is
		vJAdd(o, true, "description", vJStr(label))
		p := vJObj()
		r := vJObj()
		vJAdd(r, true, "$ref", vJStr("#/definitions/Other"))
		vJAdd(p, true, "k", r)
		vJAdd(o, true, "properties", p)
	case 1:
		vJAdd(o, true, "name", vJStr(label))
		vJAdd(o, true, "in", vJStr("body"))
		r := vJObj()
		vJAdd(r, true, "$ref", vJStr("#/definitions/Other"))
		vJAdd(o, true, "schema", r)
	case 2:
		vJAdd(o, true, "description", vJStr(label))
		r := vJObj()
		vJAdd(r, true, "$ref", vJStr("#/definitions/Other"))
		vJAdd(o, true, "schema", r)
	default: // path item
		op := vJObj()
		resp := vJObj()
		d := vJObj()
		vJAdd(d, true, "description", vJStr(label))
		vJAdd(resp, true, "default", d)
		vJAdd(op, true, "responses", resp)
		vJAdd(o, true, "get", op)
	}
	return o
}

var vC05Sections = []string{"definitions", "parameters", "responses", "paths", "x-Shared-Models"}

func vC05Doc(kind int, name string, elem vJ, isRoot bool) vJ {
	if kind == 5 {
		kind = 0 // an alias is a definition
	}
	doc := vJObj()
	if isRoot {
		vJAdd(doc, true, "swagger", vJStr("2.0"))
		info := vJObj()
		vJAdd(info, true, "title", vJStr("t"))
		vJAdd(info, true, "version", vJStr("1"))
		vJAdd(doc, true, "info", info)
	}
	for k, sec := range vC05Sections {
		m := vJObj()
		if k == kind {
			key := name
			if k == 3 {
				key = "/" + name
			}
			vJAdd(m, true, key, elem)
		}
		if k == 0 {
			other := vJObj()
			vJAdd(other, true, "description", vJStr("other"))
			vJAdd(m, true, "Other", other)
		}
		if k != 3 || isRoot {
			vJAdd(doc, true, sec, m)
		} else {
			vJAdd(doc, true, "paths", m)
		}
	}
	return doc
}

func vh_C05_resolve() {
	name := vC05Name("name", 1+vChoose(vParam("name_len", 2), "namelen"))
	kind := vChoose(6, "kind")   // 4: a schema kept under a mixed-case vendor extension of the root; 5: a definition that is itself a $ref (an alias is returned, not followed)
	where := vChoose(3, "where") // 0 root, 1 a sibling document, 2 a document whose location carries a query (others differ by query only)
	inSub := where >= 1
	exists := vChoose(2, "exists") == 1
	form := vChoose(3, "rootform") // 0 typed, 1 generic, 2 location only
	elem := vC05Elem(kind, "target")
	rootDoc := vC05Doc(kind, name, vC05Elem(kind, "in-root"), true)
	subDoc := vC05Doc(kind, name, vC05Elem(kind, "in-sub"), false)
	want := vC05Elem(kind, "in-root")
	if inSub {
		want = vC05Elem(kind, "in-sub")
	}
	_ = elem
	ld := &vAbsLoader{docs: map[string][]byte{vURoot: vJBytes(rootDoc), vUSub: vJBytes(subDoc)}}
	const vUQuery = "http://q.example/docs?rev=2"
	if where == 2 {
		ld.docs = map[string][]byte{vURoot: vJBytes(rootDoc), vUQuery: vJBytes(subDoc),
			"http://q.example/docs?rev=1": vJBytes(vC05Doc(kind, name, vC05Elem(kind, "rev-1"), false)),
			"http://q.example/docs":       vJBytes(vC05Doc(kind, name, vC05Elem(kind, "no-query"), false))}
	}
	refName := name
	if !exists {
		refName = name + "x" // a sibling that does not exist
	}
	if kind == 3 {
		refName = "/" + refName
	}
	sec := kind
	if kind == 5 {
		sec = 0
	}
	refStr := "#/" + vC05Sections[sec] + "/" + vPct(vEsc6901(refName))
	if where == 1 {
		refStr = "sub/a.json" + refStr
	} else if where == 2 {
		refStr = vUQuery + refStr
	}
	ref, rerr := NewRef(refStr)
	if rerr != nil {
		return
	}
	var root interface{}
	var typed *Swagger
	switch form {
	case 0:
		typed = new(Swagger)
		if json.Unmarshal(ld.docs[vURoot], typed) != nil {
			return
		}
		root = typed
	case 1:
		var g interface{}
		if json.Unmarshal(ld.docs[vURoot], &g) != nil {
			return
		}
		root = g
	}
	var before []byte
	if typed != nil {
		before, _ = json.Marshal(typed)
	}
	opts := &ExpandOptions{RelativeBase: vURoot, PathLoader: ld.load, ContinueOnError: vNondetBool("ContinueOnError")}
	var got interface{}
	var err error
	switch kind {
	case 0, 4, 5:
		got, err = ResolveRefWithBase(root, &ref, opts)
	case 1:
		got, err = ResolveParameterWithBase(root, ref, opts)
	case 2:
		got, err = ResolveResponseWithBase(root, ref, opts)
	default:
		got, err = ResolvePathItemWithBase(root, ref, opts)
	}
	if typed != nil {
		after, _ := json.Marshal(typed)
		vAssert(vJSONBytesEq(before, after), "resolving a reference modified the root document")
	}
	if !exists {
		vAssert(err != nil, "a reference that designates nothing resolves without error (zero value, nil error)")
		return
	}
	if err != nil {
		vNote("error: " + err.Error())
	}
	vAssert(err == nil, "a reference to an existing element fails to resolve")
	if err != nil {
		return
	}
	gb, merr := json.Marshal(got)
	vAssert(merr == nil, "the resolved element does not encode")
	if merr == nil {
		vAssertJSONEq(vJBytes(want), gb, "resolved element versus designated sub-document")
	}
	// below a path item: the default response is reachable, an undeclared status code designates nothing
	// (whatever the representation of the root)
	if kind == 3 {
		rd, e1 := NewRef(refStr + "/get/responses/default")
		rn, e2 := NewRef(refStr + "/get/responses/404")
		if e1 == nil && e2 == nil {
			_, errD := ResolveResponseWithBase(root, rd, opts)
			vAssert(errD == nil, "the default response of an operation of an existing path item fails to resolve")
			_, errN := ResolveResponseWithBase(root, rn, opts)
			vAssert(errN != nil, "a status code the operation does not declare resolves without error")
		}
	}
	// the entry point without options gives the same answer as the one with options (in-memory roots)
	if (kind == 0 || kind == 5) && where == 0 && form != 2 {
		g0, err0 := ResolveRef(root, &ref)
		vAssert(err0 == nil, "ResolveRef fails where ResolveRefWithBase succeeds")
		if err0 == nil {
			gb0, _ := json.Marshal(g0)
			vAssertJSONEq(vJBytes(want), gb0, "ResolveRef versus designated sub-document")
		}
	}
	// the same reference once more after the other document was replaced at its location: the element
	// designated now is the new one (every call reads the documents it is given)
	if where == 1 && kind != 4 {
		want2 := vC05Elem(kind, "replaced")
		ld.docs[vUSub] = vJBytes(vC05Doc(kind, name, want2, false))
		var got2 interface{}
		var err2 error
		switch kind {
		case 0, 5:
			got2, err2 = ResolveRefWithBase(root, &ref, opts)
		case 1:
			got2, err2 = ResolveParameterWithBase(root, ref, opts)
		case 2:
			got2, err2 = ResolveResponseWithBase(root, ref, opts)
		default:
			got2, err2 = ResolvePathItemWithBase(root, ref, opts)
		}
		vAssert(err2 == nil, "a second resolution of the same reference fails")
		if err2 == nil {
			gb2, _ := json.Marshal(got2)
			vAssertJSONEq(vJBytes(want2), gb2, "second resolution after the document was replaced versus the sub-document designated now")
		}
	}
}
