//go:build verif

package spec

import (
	"encoding/json"
	"unicode/utf8"
)

func utf8Valid2(s string) bool { return utf8.ValidString(s) }

// C06 — encoding is well-formed, collision-free and deterministic.

func vC06NoDup(kind string, target interface{}) {
	o := vDocParams()
	doc := vJBytes(vBuildDoc(kind, 1, "d", o))
	if json.Unmarshal(doc, target) != nil {
		return
	}
	out, err := json.Marshal(target)
	if err != nil {
		return // "either fails with an error ..."
	}
	vAssert(vJSONValid(out), kind+": encoder output is not valid JSON")
	vAssert(vJSONNoDup(out), kind+": encoder output carries the same member name twice")
	// "never emits text that parses to something other than what the model holds": every vendor
	// extension the model holds is a member of the output under exactly that name
	for k := range vExtsOf(target) {
		_, ok := vJSONMember(out, k)
		vAssert(ok, kind+": a vendor extension held by the model is not a member of the encoder output under its own name")
	}
}

func vExtsOf(v interface{}) Extensions {
	switch t := v.(type) {
	case *Schema:
		return t.Extensions
	case *Parameter:
		return t.Extensions
	case *Items:
		return t.Extensions
	case *Header:
		return t.Extensions
	case *Response:
		return t.Extensions
	case *Responses:
		return t.Extensions
	case *Operation:
		return t.Extensions
	case *PathItem:
		return t.Extensions
	case *Paths:
		return t.Extensions
	case *SecurityScheme:
		return t.Extensions
	case *Info:
		return t.Extensions
	case *Tag:
		return t.Extensions
	case *Swagger:
		return t.Extensions
	}
	return nil
}

func vh_C06_nodup_Schema()         { var v Schema; vC06NoDup("schema", &v) }
func vh_C06_nodup_Parameter()      { var v Parameter; vC06NoDup("parameter", &v) }
func vh_C06_nodup_Items()          { var v Items; vC06NoDup("items", &v) }
func vh_C06_nodup_Header()         { var v Header; vC06NoDup("header", &v) }
func vh_C06_nodup_Response()       { var v Response; vC06NoDup("response", &v) }
func vh_C06_nodup_Responses()      { var v Responses; vC06NoDup("responses", &v) }
func vh_C06_nodup_Operation()      { var v Operation; vC06NoDup("operation", &v) }
func vh_C06_nodup_PathItem()       { var v PathItem; vC06NoDup("pathItem", &v) }
func vh_C06_nodup_Paths()          { var v Paths; vC06NoDup("paths", &v) }
func vh_C06_nodup_SecurityScheme() { var v SecurityScheme; vC06NoDup("securityScheme", &v) }
func vh_C06_nodup_Info()           { var v Info; vC06NoDup("info", &v) }
func vh_C06_nodup_Tag()            { var v Tag; vC06NoDup("tag", &v) }
func vh_C06_nodup_Swagger()        { var v Swagger; vC06NoDup("swagger", &v) }

// values obtained through the builder API: extension keys that differ by case, properties set twice
func vh_C06_builders() {
	k1 := "x-" + vSymName("k1", vParam("name_len", 1))
	k2 := []string{"x-", "X-"}[vChoose(2, "k2case")] + vSymName("k2", vParam("name_len", 1))
	v1, v2 := vNondetOStr("v1"), vNondetOStr("v2")
	switch vChoose(4, "carrier") {
	case 0:
		s := new(Schema)
		s.AddExtension(k1, v1)
		s.AddExtension(k2, v2)
		s.SetProperty(vSymName("p1", 1), *StringProperty())
		s.SetProperty(vSymName("p2", 1), *BoolProperty())
		vC06Encode("schema built with AddExtension/SetProperty", s)
	case 1:
		op := NewOperation("id")
		op.AddExtension(k1, v1)
		op.AddExtension(k2, v2)
		op.RespondsWith(200, NewResponse().WithDescription(vNondetOStr("d")))
		op.RespondsWith(200, NewResponse())
		op.WithDefaultResponse(NewResponse())
		vC06Encode("operation built with AddExtension/RespondsWith", op)
	case 2:
		p := QueryParam(vNondetOStr("name"))
		p.AddExtension(k1, v1)
		p.AddExtension(k2, v2)
		vC06Encode("parameter built with AddExtension", p)
	default:
		r := NewResponse()
		r.AddExtension(k1, v1)
		r.AddExtension(k2, v2)
		r.AddHeader(vSymName("h1", 1), new(Header).Typed("string", ""))
		r.AddHeader(vSymName("h2", 1), new(Header).Typed("integer", ""))
		r.AddExample("application/json", v1)
		vC06Encode("response built with AddExtension/AddHeader", r)
	}
}

func vC06Encode(what string, v interface{}) {
	out, err := json.Marshal(v)
	if err != nil {
		return
	}
	vAssert(vJSONValid(out), what+": encoder output is not valid JSON")
	vAssert(vJSONNoDup(out), what+": encoder output carries the same member name twice")
}

// ordered properties: byte-identical output whatever the map iteration order; (has x-order, x-order, name) ascending
func vXOrder(tag string) (present bool, val interface{}, rank int) {
	switch vChoose(4, tag+".kind") {
	case 0:
		return false, nil, 0
	case 1:
		f := vNondetFloat64(tag + ".f")
		vAssume(vFinite(f))
		// small integral values only: int(f) must be exact for the documented order to be checkable
		k := vChoose(5, tag+".fv") - 2 // -2..2: a negative x-order is an x-order like any other
		vAssume(f == float64(k))
		return true, f, k
	case 2:
		k := vChoose(5, tag+".sv")
		return true, []string{"-2", "-1", "0", "1", "2"}[k], k - 2
	}
	return false, "first", 0 // an x-order that is neither a number nor a digit string does not order
}

func vh_C06_order() {
	n := 2 + vChoose(vParam("props", 2)-1, "nprops")
	s := new(Schema)
	names := make([]string, n)
	has := make([]bool, n)
	rank := make([]int, n)
	for i := 0; i < n; i++ {
		names[i] = vSymName("name", 1)
		for j := 0; j < i; j++ {
			vAssume(names[i] != names[j])
		}
		p := Schema{}
		present, val, r := vXOrder("xo")
		if val != nil {
			p.AddExtension("x-order", val)
		}
		has[i], rank[i] = present, r
		s.SetProperty(names[i], p)
	}
	vMapOrder(true)
	out1, err1 := json.Marshal(s)
	out2, err2 := json.Marshal(s)
	vMapOrder(false)
	vAssert((err1 == nil) == (err2 == nil), "encoding the same value twice: one attempt fails, the other does not")
	if err1 != nil || err2 != nil {
		return
	}
	vAssert(vJSONBytesEq(out1, out2), "encoding the same value twice yields different bytes (map iteration order shows)")
	props, ok := vJSONMember(out1, "properties")
	vAssert(ok, "properties member missing")
	if !ok {
		return
	}
	keys := vJSONKeys(props)
	vAssert(len(keys) == n, "properties object does not have one member per property")
	if len(keys) != n {
		return
	}
	idx := func(k string) int {
		for i := range names {
			if names[i] == k {
				return i
			}
		}
		return -1
	}
	for p := 0; p+1 < len(keys); p++ {
		a, b := idx(keys[p]), idx(keys[p+1])
		if a < 0 || b < 0 {
			vAssert(false, "a member of the properties object is not one of the property names")
			return
		}
		ordered := false
		switch {
		case has[a] && !has[b]:
			ordered = true
		case has[a] && has[b]:
			ordered = rank[a] < rank[b] || rank[a] == rank[b] && names[a] < names[b]
		case !has[a] && !has[b]:
			ordered = names[a] < names[b]
		}
		vAssert(ordered, "properties are not emitted in (x-order, name) order")
	}
}

// strings are correctly escaped: a reference whose text contains quotes or backslashes still encodes to
// valid JSON whose $ref member is exactly that text
func vh_C06_refstring() {
	n := vChoose(vParam("ref_len", 3)+1, "len")
	s := vNondetStr("ref", n)
	vAssume(utf8Valid2(s))
	r, err := NewRef(s)
	if err != nil {
		return
	}
	t := r.String()
	sch := &Schema{SchemaProps: SchemaProps{Ref: r}}
	out, err := json.Marshal(sch)
	if err != nil {
		return
	}
	vAssert(vJSONValid(out), "schema with a $ref: encoder output is not valid JSON")
	vAssert(vJSONNoDup(out), "schema with a $ref: duplicate member")
	if t != "" {
		v, ok := vJSONMember(out, "$ref")
		vAssert(ok, "schema with a $ref: no $ref member in the output")
		if ok {
			var back string
			vAssert(json.Unmarshal(v, &back) == nil && back == t, "schema with a $ref: the emitted $ref parses to something other than the reference text")
		}
	}
}
