//go:build verif

package spec

import "encoding/json"

// C07 — decoding is total; encode∘decode is idempotent after one round.

func vC07Check(kind string, members int, mk func() interface{}) {
	o := vDocParams()
	vWrongInit(members)
	doc := vJBytes(vBuildDoc(kind, 1, "d", o))
	vBound(vWrongWhich <= vWrongCtr || vWrongWhich == 0 || true, "")
	v := mk()
	if json.Unmarshal(doc, v) != nil {
		return // decoding may fail; it must not panic (a panic ends the path as a violation)
	}
	b1, err := json.Marshal(v)
	if err != nil {
		return // encoding may fail with an error; it must not panic
	}
	if vCaseFolded {
		return // names that case-fold onto a keyword are only checked for totality
	}
	w := mk()
	e2 := json.Unmarshal(b1, w)
	vAssert(e2 == nil, kind+": the encoded form of a decoded value does not decode")
	if e2 != nil {
		return
	}
	b2, e3 := json.Marshal(w)
	vAssert(e3 == nil, kind+": the second encoding fails")
	if e3 != nil {
		return
	}
	vAssert(vJSONBytesEq(b1, b2), kind+": encode(decode(x)) is not a fixed point of decode/encode")
}

func vh_C07_Schema()         { vC07Check("schema", 45, func() interface{} { return new(Schema) }) }
func vh_C07_Parameter()      { vC07Check("parameter", 26, func() interface{} { return new(Parameter) }) }
func vh_C07_Items()          { vC07Check("items", 18, func() interface{} { return new(Items) }) }
func vh_C07_Header()         { vC07Check("header", 19, func() interface{} { return new(Header) }) }
func vh_C07_Response()       { vC07Check("response", 4, func() interface{} { return new(Response) }) }
func vh_C07_Responses()      { vC07Check("responses", 2, func() interface{} { return new(Responses) }) }
func vh_C07_Operation()      { vC07Check("operation", 12, func() interface{} { return new(Operation) }) }
func vh_C07_PathItem()       { vC07Check("pathItem", 9, func() interface{} { return new(PathItem) }) }
func vh_C07_Paths()          { vC07Check("paths", 1, func() interface{} { return new(Paths) }) }
func vh_C07_SecurityScheme() { vC07Check("securityScheme", 7, func() interface{} { return new(SecurityScheme) }) }
func vh_C07_Info()           { vC07Check("info", 6, func() interface{} { return new(Info) }) }
func vh_C07_Contact()        { vC07Check("contact", 3, func() interface{} { return new(ContactInfo) }) }
func vh_C07_License()        { vC07Check("license", 2, func() interface{} { return new(License) }) }
func vh_C07_Tag()            { vC07Check("tag", 3, func() interface{} { return new(Tag) }) }
func vh_C07_ExternalDocs()   { vC07Check("externalDocs", 2, func() interface{} { return new(ExternalDocumentation) }) }
func vh_C07_XML()            { vC07Check("xml", 5, func() interface{} { return new(XMLObject) }) }
func vh_C07_Swagger()        { vC07Check("swagger", 15, func() interface{} { return new(Swagger) }) }

// the union helper types, decoded from a bare value of every JSON kind
func vh_C07_unions() {
	val := vJBytes(vWrongVal(vChoose(6, "kind"), "u"))
	var mk func() interface{}
	name := ""
	switch vChoose(6, "target") {
	case 0:
		name, mk = "StringOrArray", func() interface{} { return new(StringOrArray) }
	case 1:
		name, mk = "SchemaOrBool", func() interface{} { return new(SchemaOrBool) }
	case 2:
		name, mk = "SchemaOrArray", func() interface{} { return new(SchemaOrArray) }
	case 3:
		name, mk = "SchemaOrStringArray", func() interface{} { return new(SchemaOrStringArray) }
	case 4:
		name, mk = "Ref", func() interface{} { return new(Ref) }
	default:
		name, mk = "SchemaProperties", func() interface{} { return new(SchemaProperties) }
	}
	v := mk()
	if json.Unmarshal(val, v) != nil {
		return
	}
	b1, err := json.Marshal(v)
	if err != nil {
		return
	}
	w := mk()
	e2 := json.Unmarshal(b1, w)
	vAssert(e2 == nil, name+": the encoded form of a decoded value does not decode")
	if e2 != nil {
		return
	}
	b2, e3 := json.Marshal(w)
	vAssert(e3 == nil, name+": the second encoding fails")
	if e3 == nil {
		vAssert(vJSONBytesEq(b1, b2), name+": encode(decode(x)) is not a fixed point of decode/encode")
	}
}

// normalisation of one member must not change how another one is read on the next round: two properties,
// the alphabetically later one carries the ordering extension with every letter's case a solver variable
// ("x-order" … "X-ORDER"); the first encoding must already be the fixed point
func vh_C07_xorder_case() {
	key := vNondetStr("xorder.key", 7)
	const lo, up = "x-order", "X-ORDER"
	for i := 0; i < 7; i++ {
		vAssume(key[i] == lo[i] || key[i] == up[i])
	}
	b := vJObj()
	vJAdd(b, true, key, vJInt(1))
	vJAdd(b, true, "description", vJStr("b"))
	a := vJObj()
	vJAdd(a, true, "description", vJStr("a"))
	vJAdd(a, vNondetBool("a.order.present"), "x-order", vJInt(2))
	props := vJObj()
	vJAdd(props, true, "a", a)
	vJAdd(props, true, "b", b)
	doc := vJObj()
	vJAdd(doc, true, "properties", props)
	v := new(Schema)
	if json.Unmarshal(vJBytes(doc), v) != nil {
		return
	}
	b1, err := json.Marshal(v)
	if err != nil {
		return
	}
	w := new(Schema)
	e2 := json.Unmarshal(b1, w)
	vAssert(e2 == nil, "schema with ordered properties: the encoded form of a decoded value does not decode")
	if e2 != nil {
		return
	}
	b2, e3 := json.Marshal(w)
	vAssert(e3 == nil, "schema with ordered properties: the second encoding fails")
	if e3 != nil {
		return
	}
	vAssert(vJSONBytesEq(b1, b2), "schema with ordered properties: encode(decode(x)) is not a fixed point of decode/encode")
}
