//go:build verif

package spec

import "encoding/json"

// C08 — expansion never fails silently: an unresolvable $ref on the way is an error (strict mode), or stays
// verbatim while everything else is expanded as usual (continue-on-error mode).

func vWorldFaulty() *vWorld {
	vUseURLSet(0)
	kp := vChoose(vParam("kwpos", 2), "kwpos")
	ts := []vTarget{
		{doc: vURoot, frag: "/definitions/B", single: true},
		{doc: vUSub, frag: "/definitions/C%20d"},
		{doc: vUFar, frag: "/definitions/D", single: true},
		{doc: vURoot, frag: "/definitions/Nope", single: true},    // dangling pointer
		{doc: "file:///w/missing.json", frag: "/x", single: true}, // document the loader does not have
		{doc: vURoot, frag: "/info/title", single: true},          // a string
		{doc: vURoot, frag: "/x-num", single: true},               // a number
		{doc: vURoot, frag: "/x-arr", single: true},               // an array
		{doc: vURoot, frag: "/x-bool", single: true},              // a boolean
	}
	a := vPickRef("A", vURoot, ts)
	b := vPickRef("B", vURoot, []vTarget{{doc: vUSub, frag: "/definitions/C%20d", single: true}})
	c := vPickRef("C", vUSub, []vTarget{{doc: vUSub, frag: "/definitions/Gone", single: true}, {doc: vUFar, frag: "/definitions/D", single: true}, {doc: vURoot, frag: "/definitions/B", single: true}})
	// an operation with two status-code responses: one fine, one through a slot (an undeclared status code, a
	// dangling response, or a good one)
	r404 := vPickRef("R404", vURoot, []vTarget{{doc: vURoot, frag: "/responses/R", single: true}, {doc: vURoot, frag: "/paths/~1p/get/responses/500", single: true}, {doc: vURoot, frag: "/responses/Nope", single: true}})
	if r404 == "" {
		r404 = "#/responses/R"
	}
	w := &vWorld{root: vURoot, docs: map[string]string{}, fail: map[string]bool{}}
	w.docs[vURoot] = `{"swagger":"2.0","info":{"title":"t","version":"1"},"x-num":1,"x-arr":[1],"x-bool":true,` +
		`"paths":{"/p":{"get":{"responses":{"200":{"description":"ok"},"404":{"$ref":"` + r404 + `"}}}}},` +
		`"responses":{"R":{"description":"r","schema":{"$ref":"#/definitions/A"}}},` +
		`"definitions":{"A":` + vDefJSON("la", kp, vRefJSON(a)) + `,"B":` + vDefJSON("lb", kp, vRefJSON(b)) + `}}`
	w.docs[vUSub] = `{"definitions":{"C d":` + vDefJSON("lc", kp, vRefJSON(c)) + `}}`
	w.docs[vUFar] = `{"definitions":{"D":{"description":"ld"}}}`
	// the loader may refuse any subset of the other documents
	w.fail[vUSub] = vNondetBool("fail.sub")
	w.fail[vUFar] = vNondetBool("fail.far")
	return w
}

// unresolvable: does the unfolding of the document at `start` run into a $ref that cannot be resolved to an object?
func (w *vWorld) unresolvableFrom(start vNodeID) bool {
	seen := map[vNodeID]bool{}
	stack := []vNodeID{start}
	for len(stack) > 0 {
		id := stack[len(stack)-1]
		stack = stack[:len(stack)-1]
		if seen[id] {
			continue
		}
		seen[id] = true
		n, ok := w.node(id)
		if !ok {
			return true
		}
		var ts []vNodeID
		w.refsIn(id, n, &ts)
		for _, t := range ts {
			tn, ok := w.node(t)
			if !ok {
				return true
			}
			if _, isObj := tn.(map[string]interface{}); !isObj {
				return true
			}
			stack = append(stack, t)
		}
	}
	return false
}

func vh_C08_faults() { vC08Run(vWorldFaulty()) }

// every keyword position, with the reference one level below it (a sub-schema of the sub-schema)
func vWorldFaultyDeep() *vWorld {
	vUseURLSet(0)
	kp := vChoose(len(vKwPos)+1, "kwpos.deep") // the last one: the middle element of a tuple between two good references
	t := vPickRef("T", vURoot, []vTarget{
		{doc: vURoot, frag: "/definitions/B", single: true},
		{doc: vURoot, frag: "/definitions/Nope", single: true},
		{doc: "file:///w/missing.json", frag: "/x", single: true},
		{doc: vURoot, frag: "/info/title", single: true},
	})
	inner := ""
	if t != "" {
		inner = `{"description":"inner","properties":{"extra":` + vRefJSON(t) + `}}`
	}
	w := &vWorld{root: vURoot, docs: map[string]string{}, fail: map[string]bool{}}
	defA := ""
	if kp == len(vKwPos) {
		if inner == "" {
			inner = `{"description":"inner"}`
		} else if vChoose(2, "tuple.direct") == 1 {
			inner = vRefJSON(t) // the element is the reference itself
		}
		defA = `{"description":"la","items":[{"$ref":"#/definitions/B"},` + inner + `,{"$ref":"#/definitions/B"}]}`
	} else {
		defA = vDefJSON("la", kp, inner)
	}
	w.docs[vURoot] = `{"swagger":"2.0","info":{"title":"t","version":"1"},"paths":{},` +
		`"definitions":{"A":` + defA + `,"B":{"description":"lb"}}}`
	return w
}

func vh_C08_deep() { vC08Run(vWorldFaultyDeep()) }

// operations: all methods, a path-level parameter, an operation without responses whose parameter reference may dangle
func vh_C08_ops() { vC08Run(vWorldOps(true)) }

func vC08Run(w *vWorld) {
	root, ok := w.decodeRoot()
	if !ok {
		return
	}
	cont := vNondetBool("ContinueOnError")
	vMapOrder(true)
	err := ExpandSpec(root, &ExpandOptions{RelativeBase: w.root, PathLoader: w.loader, ContinueOnError: cont})
	vMapOrder(false)
	bad := w.unresolvableFrom(vNodeID{w.root, ""})
	if !cont {
		if bad {
			vAssert(err != nil, "a $ref that cannot be resolved is passed over in silence (no error)")
		} else {
			vAssert(err == nil, "expansion reports an error although every $ref it has to follow is resolvable")
		}
		return
	}
	if err != nil {
		vNote("error: " + err.Error())
	}
	vAssert(err == nil, "with ContinueOnError expansion still returns an error")
	if err != nil {
		return
	}
	ow, ok := w.outWorld(root)
	if !ok {
		return
	}
	b := &vBisim{in: w, out: ow, seen: map[vPair]bool{}, verbatim: true}
	same := b.eq(vNodeID{w.root, ""}, vNodeID{w.root, ""})
	if !same {
		vNote(b.why)
	}
	vAssert(same, "with ContinueOnError: an unresolvable $ref is not left verbatim, or resolvable parts are not expanded as usual")
	// "everything else is expanded as usual": a $ref that remains either cannot be resolved to an object, or sits on a cycle
	var g interface{}
	if json.Unmarshal([]byte(ow.docs[w.root]), &g) != nil {
		return
	}
	var refs [][2]string
	vAllRefs(g, "", &refs)
	for _, hr := range refs {
		id, ok := vResolveRef(w.root, hr[1])
		if !ok {
			continue
		}
		n, exists := w.node(id)
		if !exists {
			continue
		}
		if _, isObj := n.(map[string]interface{}); !isObj {
			continue
		}
		if w.unresolvableFrom(id) {
			continue // what it designates cannot be expanded itself
		}
		vAssert(w.onCycle(id), "with ContinueOnError: a $ref that resolves, to something that expands, and closes no cycle is left unexpanded")
	}
}
