//go:build verif

package spec

import (
	"encoding/json"
	"strings"
)

// C09 — skip-schemas mode: parameters, responses and path items are dereferenced, definitions untouched,
// schema $refs kept valid from the root location; a later full expansion gives the direct result.

func vWorldSkip() *vWorld {
	vUseURLSet(vChoose(2, "urlset") * 2) // plain directories, or prefix-named sibling directories
	// schema targets an imported parameter / response may point to
	sch := func(tag, holder string) string {
		return vPickRef(tag, holder, []vTarget{{doc: vURoot, frag: "/definitions/A"}, {doc: vUSub, frag: "/definitions/C%20d"}, {doc: vUFar, frag: "/definitions/D"}})
	}
	qs := sch("QS", vUSub)
	ss := sch("SS", vUSub)
	js := sch("JS", vUFar)
	// where the schema of the imported element holds its reference: it is the reference, or holds it under a
	// keyword (properties, items, or an inline definitions map next to a local reference to it)
	wrap := vChoose(4, "wrap")
	withSchema := func(ref string) string {
		if ref == "" {
			return `{"type":"string"}`
		}
		switch wrap {
		case 1:
			return `{"description":"w","properties":{"p":` + vRefJSON(ref) + `}}`
		case 2:
			return `{"description":"w","items":` + vRefJSON(ref) + `}`
		case 3:
			return `{"description":"w","definitions":{"own":` + vRefJSON(ref) + `}}`
		}
		return vRefJSON(ref)
	}
	w := &vWorld{root: vURoot, docs: map[string]string{}}
	w.docs[vURoot] = `{"swagger":"2.0","info":{"title":"t","version":"1"},` +
		`"paths":{"/p":{"$ref":"` + vSpell(vURoot, vUFar, "/x-items/J1", 1) + `"},"/q":{"get":{"parameters":[{"$ref":"#/parameters/P0"}],"responses":{"200":{"$ref":"#/responses/R0"}}}}},` +
		`"definitions":{"A":{"description":"root-A","properties":{"b":{"$ref":"#/definitions/B"}}},"B":{"description":"root-B"}},` +
		`"parameters":{"P0":{"$ref":"` + vSpell(vURoot, vUSub, "/parameters/Q1", 1) + `"}},` +
		`"responses":{"R0":{"$ref":"` + vSpell(vURoot, vUSub, "/responses/S1", 1) + `"}}}`
	w.docs[vUSub] = `{"definitions":{"C d":{"description":"sub-C"}},` +
		`"parameters":{"Q1":{"name":"q1","in":"body","schema":` + withSchema(qs) + `}},` +
		`"responses":{"S1":{"description":"s1","schema":` + withSchema(ss) + `}}}`
	w.docs[vUFar] = `{"definitions":{"D":{"description":"far-D"}},` +
		`"x-items":{"J1":{"post":{"responses":{"default":{"description":"j","schema":` + withSchema(js) + `}}}}}}`
	return w
}

// noRefAtElementLevel: parameters, responses and path items of the expanded root carry no $ref
func vElementRefs(g interface{}) int {
	n := 0
	root, _ := g.(map[string]interface{})
	has := func(v interface{}) {
		if m, ok := v.(map[string]interface{}); ok {
			if _, ok := m["$ref"]; ok {
				n++
			}
		}
	}
	each := func(v interface{}, f func(interface{})) {
		switch c := v.(type) {
		case map[string]interface{}:
			for _, e := range c {
				f(e)
			}
		case []interface{}:
			for _, e := range c {
				f(e)
			}
		}
	}
	each(root["parameters"], has)
	each(root["responses"], has)
	each(root["paths"], func(item interface{}) {
		has(item)
		im, _ := item.(map[string]interface{})
		each(im["parameters"], has)
		for _, verb := range []string{"get", "put", "post", "delete", "options", "head", "patch"} {
			op, _ := im[verb].(map[string]interface{})
			each(op["parameters"], has)
			each(op["responses"], has)
		}
	})
	return n
}

func vh_C09_skip()              { vC09Run(vWorldSkip()) }
func vh_C09_imports_params()    { vC09Run(vWorldImports(0)) }
func vh_C09_imports_responses() { vC09Run(vWorldImports(1)) }
func vh_C09_imports_item()      { vC09Run(vWorldImports(2)) }
func vh_C09_ops()               { vC09Run(vWorldOps(false)) }

func vC09Run(w *vWorld) {
	root, ok := w.decodeRoot()
	if !ok {
		return
	}
	defsBefore, _ := json.Marshal(root.Definitions)
	opts := &ExpandOptions{RelativeBase: w.root, PathLoader: w.loader, SkipSchemas: true}
	err := ExpandSpec(root, opts)
	vAssert(err == nil, "skip-schemas expansion of a well-formed specification fails")
	if err != nil {
		return
	}
	defsAfter, _ := json.Marshal(root.Definitions)
	vAssert(vJSONBytesEq(defsBefore, defsAfter), "skip-schemas expansion touched the definitions section")
	out, _ := json.Marshal(root)
	var g interface{}
	_ = json.Unmarshal(out, &g)
	vAssert(vElementRefs(g) == 0, "skip-schemas expansion leaves a $ref at parameter / response / path-item level")
	var refs [][2]string
	vAllRefs(g, "", &refs)
	for _, hr := range refs {
		t, ok := vResolveRef(w.root, hr[1])
		_, exists := w.node(t)
		vAssert(ok && exists, "a schema $ref kept by skip-schemas expansion does not resolve from the root location")
		if ok && t.doc == w.root {
			vAssert(strings.HasPrefix(hr[1], "#"), "a kept schema $ref into the root document is not fragment-only")
		}
	}
	ow, ok := w.outWorld(root)
	if !ok {
		return
	}
	b := &vBisim{in: w, out: ow, seen: map[vPair]bool{}}
	same := b.eq(vNodeID{w.root, ""}, vNodeID{w.root, ""})
	if !same {
		vNote(b.why)
	}
	vAssert(same, "skip-schemas expansion changed the meaning of the specification")
	// a later full expansion (same options value, as a caller would) must equal the direct full expansion
	opts.SkipSchemas = false
	err2 := ExpandSpec(root, opts)
	direct, _ := w.decodeRoot()
	err3 := ExpandSpec(direct, &ExpandOptions{RelativeBase: w.root, PathLoader: w.loader})
	vAssert((err2 == nil) == (err3 == nil), "full expansion after skip-schemas expansion fails where the direct one succeeds (or conversely)")
	if err2 == nil && err3 == nil {
		o2, _ := json.Marshal(root)
		o3, _ := json.Marshal(direct)
		vAssert(vJSONEq(o2, o3), "full expansion after skip-schemas expansion differs from the direct full expansion")
	}
}
