//go:build verif

package spec

import "encoding/json"

// C10 — the single-element expanders agree with the element's meaning in its root, leave only references
// that resolve against that root, and modify neither the root nor the caller's options.

// vWithElement: the input world with the root's element at `ptr` replaced by JSON text `elem`
func (w *vWorld) withElement(section, name string, elem []byte) (*vWorld, bool) {
	var g map[string]interface{}
	if json.Unmarshal([]byte(w.docs[w.root]), &g) != nil {
		return nil, false
	}
	sec, ok := g[section].(map[string]interface{})
	if !ok {
		return nil, false
	}
	var e interface{}
	if json.Unmarshal(elem, &e) != nil {
		return nil, false
	}
	sec[name] = e
	out, err := json.Marshal(g)
	if err != nil {
		return nil, false
	}
	ow := &vWorld{root: w.root, docs: map[string]string{}}
	for k, v := range w.docs {
		ow.docs[k] = v
	}
	ow.docs[w.root] = string(out)
	return ow, true
}

func vC10Compare(w *vWorld, section, name string, out []byte, what string) {
	ow, ok := w.withElement(section, name, out)
	vAssert(ok, what+": the expanded element does not encode")
	if !ok {
		return
	}
	id := vNodeID{w.root, "/" + section + "/" + name}
	b := &vBisim{in: w, out: ow, seen: map[vPair]bool{}}
	same := b.eq(id, id)
	if !same {
		vNote(b.why)
	}
	vAssert(same, what+": the expanded element does not denote the same tree as the element in its root")
	// C03's cut-point condition on what is left
	var g interface{}
	if json.Unmarshal(out, &g) == nil {
		var refs [][2]string
		vAllRefs(g, "", &refs)
		for _, hr := range refs {
			t, ok := vResolveRef(w.root, hr[1])
			_, exists := w.node(t)
			vAssert(ok && exists, what+": a $ref left behind does not resolve against the root")
			if ok && exists {
				vAssert(w.onCycle(t), what+": a $ref left behind designates a node that is not on a cycle")
			}
		}
	}
}

func vWorldLocal() *vWorld {
	// a single root document (the *WithRoot entry points cannot reach other documents)
	vUseURLSet(0)
	kp := vChoose(vParam("kwpos", 2), "kwpos")
	ts := []vTarget{{doc: vURoot, frag: "/definitions/A", single: true}, {doc: vURoot, frag: "/definitions/B", single: true}}
	a := vPickRef("A", vURoot, ts)
	b := vPickRef("B", vURoot, ts)
	p := vPickRef("P", vURoot, []vTarget{{doc: vURoot, frag: "/parameters/P1", single: true}})
	r := vPickRef("R", vURoot, []vTarget{{doc: vURoot, frag: "/responses/R1", single: true}})
	orInline := func(ref, inline string) string {
		if ref == "" {
			return inline
		}
		return vRefJSON(ref)
	}
	w := &vWorld{root: vURoot, docs: map[string]string{}}
	w.docs[vURoot] = `{"swagger":"2.0","info":{"title":"t","version":"1"},"paths":{},` +
		`"definitions":{"A":` + vDefJSON("la", kp, vRefJSON(a)) + `,"B":` + vDefJSON("lb", kp, vRefJSON(b)) + `},` +
		`"parameters":{"P":` + orInline(p, `{"name":"p","in":"body","schema":{"$ref":"#/definitions/A"}}`) + `,"P1":{"name":"p1","in":"body","schema":{"$ref":"#/definitions/B"}}},` +
		`"responses":{"R":` + orInline(r, `{"description":"r","schema":{"$ref":"#/definitions/A"}}`) + `,"R1":{"description":"r1","schema":{"$ref":"#/definitions/B"}}}}`
	return w
}

func vh_C10_elements() {
	w := vWorldLocal()
	root, ok := w.decodeRoot()
	if !ok {
		return
	}
	before, _ := json.Marshal(root)
	var groot interface{}
	_ = json.Unmarshal([]byte(w.docs[w.root]), &groot)
	PathLoader = w.loader
	var out []byte
	var err error
	section, name, what := "definitions", "A", ""
	switch vChoose(8, "entry") {
	case 0: // typed root
		what = "ExpandSchema(typed root)"
		var s Schema
		_ = json.Unmarshal(mustMember(w, "definitions", "A"), &s)
		err = ExpandSchema(&s, root, nil)
		out, _ = json.Marshal(s)
	case 1: // generic root
		what = "ExpandSchema(generic root)"
		var s Schema
		_ = json.Unmarshal(mustMember(w, "definitions", "A"), &s)
		err = ExpandSchema(&s, groot, nil)
		out, _ = json.Marshal(s)
	case 2: // location only
		what = "ExpandSchemaWithBasePath"
		var s Schema
		_ = json.Unmarshal(mustMember(w, "definitions", "A"), &s)
		opts := &ExpandOptions{RelativeBase: w.root, PathLoader: w.loader}
		keep := *opts
		err = ExpandSchemaWithBasePath(&s, nil, opts)
		out, _ = json.Marshal(s)
		vAssert(opts.RelativeBase == keep.RelativeBase && opts.SkipSchemas == keep.SkipSchemas && opts.ContinueOnError == keep.ContinueOnError && opts.AbsoluteCircularRef == keep.AbsoluteCircularRef,
			"ExpandSchemaWithBasePath modifies the caller's options")
	case 3: // pre-filled cache
		what = "ExpandSchema(typed root, warm cache)"
		c := &vCache{m: map[string]interface{}{}}
		var s0 Schema
		_ = json.Unmarshal(mustMember(w, "definitions", "B"), &s0)
		_ = ExpandSchema(&s0, root, c)
		var s Schema
		_ = json.Unmarshal(mustMember(w, "definitions", "A"), &s)
		err = ExpandSchema(&s, root, c)
		out, _ = json.Marshal(s)
	case 6: // a cache that was used with another root before
		what = "ExpandSchema(typed root, cache used with another root)"
		c := &vCache{m: map[string]interface{}{}}
		var other Swagger
		_ = json.Unmarshal([]byte(`{"swagger":"2.0","info":{"title":"o","version":"1"},"paths":{},"definitions":{"A":{"description":"other-a"},"B":{"description":"other-b"}}}`), &other)
		var s0 Schema
		_ = json.Unmarshal([]byte(`{"$ref":"#/definitions/A"}`), &s0)
		_ = ExpandSchema(&s0, &other, c)
		var s Schema
		_ = json.Unmarshal(mustMember(w, "definitions", "A"), &s)
		err = ExpandSchema(&s, root, c)
		out, _ = json.Marshal(s)
	case 7: // options without a base location
		what = "ExpandSchemaWithBasePath(no base)"
		var s Schema
		_ = json.Unmarshal([]byte(`{"description":"plain"}`), &s)
		opts := &ExpandOptions{PathLoader: w.loader}
		_ = ExpandSchemaWithBasePath(&s, nil, opts)
		vAssert(opts.RelativeBase == "" && !opts.SkipSchemas && !opts.ContinueOnError && !opts.AbsoluteCircularRef, "ExpandSchemaWithBasePath modifies the caller's options")
		return
	case 4:
		what = "ExpandParameterWithRoot"
		section, name = "parameters", "P"
		var p Parameter
		_ = json.Unmarshal(mustMember(w, "parameters", "P"), &p)
		err = ExpandParameterWithRoot(&p, root, nil)
		out, _ = json.Marshal(p)
	default:
		what = "ExpandResponseWithRoot"
		section, name = "responses", "R"
		var r Response
		_ = json.Unmarshal(mustMember(w, "responses", "R"), &r)
		err = ExpandResponseWithRoot(&r, root, nil)
		out, _ = json.Marshal(r)
	}
	after, _ := json.Marshal(root)
	vAssert(vJSONBytesEq(before, after), what+": the root document passed as context was modified")
	if err != nil {
		vNote("error: " + err.Error())
		return
	}
	vC10Compare(w, section, name, out, what)
}

func mustMember(w *vWorld, section, name string) []byte {
	var g map[string]map[string]json.RawMessage
	var top map[string]json.RawMessage
	_ = json.Unmarshal([]byte(w.docs[w.root]), &top)
	_ = json.Unmarshal(top[section], &g)
	var sec map[string]json.RawMessage
	_ = json.Unmarshal(top[section], &sec)
	return sec[name]
}
