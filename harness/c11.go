//go:build verif

package spec

import (
	"encoding/json"
	"path"
	"strings"
)

// C11 — the root location may be spelled in any equivalent way.

const vC11SegAlphabet = "abZ09-_.~\xc3\xa9" // characters that stand for themselves in a path segment

func vC11Seg(name string, n int) string {
	s := vNondetStr(name, n)
	for i := 0; i < n; i++ {
		vAssume(vInSet(s[i], vC11SegAlphabet))
	}
	vAssume(s != "." && s != "..") // the canonical location has a cleaned path
	vAssume(utf8Valid(s))
	return s
}

func utf8Valid(s string) bool {
	// only the two-byte sequence C3 A9 is in the alphabet
	for i := 0; i < len(s); i++ {
		if s[i] == 0xc3 {
			if i+1 >= len(s) || s[i+1] != 0xa9 {
				return false
			}
			i++
		} else if s[i] == 0xa9 {
			return false
		}
	}
	return true
}

// vCwd is the working directory relative spellings are taken against
func vCwd() string { return vGetwd() }

// one equivalent re-spelling of a location given by scheme kind and segments
// kind 0: file:///<segs>   1: http://h.example/<segs>   2: https://h.example/<segs>
func vC11Spell(kind int, segs []string, op int, pos int) string {
	prefix := []string{"file://", "http://h.example", "https://h.example"}[kind]
	var parts []string
	for i, s := range segs {
		sep := "/"
		pre := ""
		if i == pos {
			switch op {
			case 1:
				pre = "./"
			case 2:
				pre = "x/../"
			case 3:
				sep = "//"
			}
		}
		parts = append(parts, sep+pre+s)
	}
	p := strings.Join(parts, "")
	switch op {
	case 4: // file:/p instead of file:///p
		if kind == 0 {
			return "file:" + p
		}
	case 5: // bare absolute path
		if kind == 0 {
			return p
		}
	case 6: // upper-case scheme
		return strings.ToUpper(prefix[:4]) + prefix[4:] + p
	case 7: // trailing fragment
		return prefix + p + "#/definitions/x"
	case 8: // trailing query (files only)
		if kind == 0 {
			return prefix + p + "?raw=1"
		}
	case 9: // path relative to the working directory (files under it only; handled by the caller)
	}
	return prefix + p
}

type vLoadLog struct{ urls []string }

func (l *vLoadLog) loader(p string) (json.RawMessage, error) {
	l.urls = append(l.urls, p)
	return nil, vErrLoad
}

func vC11Observe(base string, ref string) (log []string, errNil bool) {
	r := MustCreateRef(ref)
	l := &vLoadLog{}
	_, err := ResolveRefWithBase(nil, &r, &ExpandOptions{RelativeBase: base, PathLoader: l.loader})
	return l.urls, err == nil
}

func vSameLog(a, b []string) bool {
	if len(a) != len(b) {
		return false
	}
	for i := range a {
		if a[i] != b[i] {
			return false
		}
	}
	return true
}

func vh_C11_spellings() {
	kind := vChoose(3, "scheme")
	nseg := 1 + vChoose(vParam("segs", 2), "nseg")
	var segs []string
	for i := 0; i < nseg; i++ {
		segs = append(segs, vC11Seg("seg", 1+vChoose(vParam("seg_len", 2), "seglen")))
	}
	underCwd := false
	if kind == 0 && vChoose(2, "under_cwd") == 1 {
		underCwd = true
	}
	full := segs
	if underCwd {
		full = append(strings.Split(strings.TrimPrefix(vCwd(), "/"), "/"), segs...)
	}
	canon := vC11Spell(kind, full, 0, 0)
	op := vChoose(10, "op")
	pos := vChoose(len(full), "pos")
	var spelled string
	if op == 9 {
		if !underCwd {
			return
		}
		spelled = strings.Join(segs, "/")
		if vChoose(2, "dotslash") == 1 {
			spelled = "./" + spelled
		}
	} else {
		spelled = vC11Spell(kind, full, op, pos)
	}
	ref := []string{"", "#/definitions/y", "sib.json", "../up.json#/a"}[vChoose(4, "ref")]
	l1, ok1 := vC11Observe(canon, ref)
	l2, ok2 := vC11Observe(spelled, ref)
	vAssert(ok1 == ok2, "resolution succeeds under one spelling of the root location and fails under an equivalent one")
	vAssert(vSameLog(l1, l2), "equivalent spellings of the root location make the loader see different URLs")
	for _, u := range l1 {
		pu, err := parseURL(u)
		vAssert(err == nil && pu.Scheme != "" && pu.Fragment == "" && path.IsAbs(pu.Path) && path.Clean(pu.Path) == pu.Path,
			"a document is requested under a URL that is not canonical (scheme, absolute cleaned path, no fragment)")
	}
	if ref == "" && len(l1) >= 1 {
		// idempotence: the URL the loader saw is canonical; used as the root location it must come back unchanged
		l3, _ := vC11Observe(l1[0], "")
		vAssert(len(l3) >= 1 && l3[0] == l1[0], "normalising an already canonical location changes it")
	}
}

// relative spellings are taken against the working directory at the time of the call
func vh_C11_chdir() {
	seg := vC11Seg("seg", 1+vChoose(vParam("seg_len", 2), "seglen"))
	d1, d2 := vTwoDirs()
	vChdir(d1)
	l1, _ := vC11Observe(seg, "")
	vChdir(d2)
	l2, _ := vC11Observe(seg, "")
	c2, _ := vC11Observe("file://"+d2+"/"+seg, "")
	vChdir(d1)
	vAssert(len(l1) >= 1 && len(l2) >= 1 && len(c2) >= 1, "loader not called")
	if len(l2) >= 1 && len(c2) >= 1 {
		vAssert(l2[0] == c2[0], "a relative root location is not taken against the current working directory")
	}
}

// expansion gives identical results under equivalent spellings (a circular $ref that reaches the root through
// its file name must come out the same, fragment-only, whatever the spelling of the root location)
func vh_C11_expand() {
	kind := vChoose(3, "scheme")
	seg := vC11Seg("seg", 1)
	full := []string{"w", seg}
	canon := vC11Spell(kind, append(full, "root.json"), 0, 0)
	op := 1 + vChoose(8, "op") // every operator except the working-directory one
	pos := vChoose(3, "pos")
	spelled := vC11Spell(kind, append(full, "root.json"), op, pos)
	// (no object of the document has two members whose expansion order could matter: where a cycle is cut depends
	// on the order in which Go's randomised map iteration visits properties, which is not this property's subject)
	rootText := `{"swagger":"2.0","info":{"title":"t","version":"1"},"paths":{},"definitions":{"node":{"properties":{"next":{"$ref":"root.json#/definitions/node"}},"items":{"$ref":"sub/o.json#/definitions/O"}}}}`
	otherText := `{"definitions":{"O":{"description":"o","items":{"$ref":"../root.json#/definitions/node"}}}}`
	run := func(base string) ([]byte, bool, []string) {
		var log []string
		loader := func(u string) (json.RawMessage, error) {
			log = append(log, u)
			if strings.HasSuffix(u, "/root.json") {
				return json.RawMessage(rootText), nil
			}
			if strings.HasSuffix(u, "/sub/o.json") {
				return json.RawMessage(otherText), nil
			}
			return nil, vErrNoDoc
		}
		var root Swagger
		if json.Unmarshal([]byte(rootText), &root) != nil {
			return nil, false, nil
		}
		err := ExpandSpec(&root, &ExpandOptions{RelativeBase: base, PathLoader: loader})
		out, _ := json.Marshal(root)
		return out, err == nil, log
	}
	o1, ok1, l1 := run(canon)
	o2, ok2, l2 := run(spelled)
	vAssert(ok1 == ok2, "expansion succeeds under one spelling of the root location and fails under an equivalent one")
	if ok1 && ok2 {
		vAssert(vJSONBytesEq(o1, o2), "expansion gives different results under equivalent spellings of the root location")
	}
	vAssert(vSameLog(l1, l2), "equivalent spellings of the root location make the loader see different URLs during expansion")
}
