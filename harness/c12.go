//go:build verif

package spec

import (
	"encoding/json"
	"errors"
	"net/url"
	"strings"
	"unicode/utf8"
)

// C12 — the document a $ref designates is the one RFC 3986 reference resolution yields.

var vC12Bases = []string{
	"file:///root.json",
	"file:///a/b/base.json",
	"http://h.example/r/base.json",
	"https://h.example:8443/r/s/base.json",
}

var vErrLoad = errors.New("verif: loader refuses every document")

// all byte values, short references
func vh_C12_locate() {
	n := vChoose(vParam("ref_len", 2)+1, "len")
	s := vNondetStr("ref", n)
	vC12Check(s)
}

// longer references over the alphabet of path-segment material the property names:
// plain, dotted, "." / "..", percent-escapes (%2F, %2e, %20 ...), non-ASCII, fragment
const vC12Alphabet = "./%25Fe#a \xc3\xa9"

func vh_C12_alphabet() {
	lo := vParam("ref_len", 2) + 1
	hi := vParam("alpha_len", 5)
	if hi < lo {
		return
	}
	n := lo + vChoose(hi-lo+1, "len")
	s := vNondetStr("ref", n)
	for i := 0; i < n; i++ {
		vAssume(vInSet(s[i], vC12Alphabet))
	}
	vC12Check(s)
}

// absolute references (used as they are): a concrete scheme/authority prefix followed by symbolic bytes
var vC12Prefixes = []string{"file:///", "http://o.example/", "https://o.example/d/", "FILE:///", "http://h.example/r/"}

func vh_C12_absolute() {
	pre := vC12Prefixes[vChoose(len(vC12Prefixes), "prefix")]
	n := vChoose(vParam("abs_tail", 2)+1, "len")
	vC12Check(pre + vNondetStr("ref", n))
}

func vC12Check(s string) {
	base := vC12Bases[vChoose(len(vC12Bases), "base")]
	vAssume(utf8.ValidString(s))
	// an escaped dot is equivalent to a dot (RFC 3986 §6.2.2.2) and the implementation treats it so; net/url's
	// ResolveReference does not, so such references are outside the differential comparison
	for i := 0; i+2 < len(s); i++ {
		vAssume(!(s[i] == '%' && s[i+1] == '2' && (s[i+2] == 'e' || s[i+2] == 'E')))
	}
	r, err := NewRef(s)
	if err != nil {
		return // not a reference
	}
	u := r.GetURL()
	// the property speaks of references made of a file path and an optional fragment, or absolute ones
	vAssume(u.User == nil && u.Opaque == "" && u.RawQuery == "" && !u.ForceQuery)
	if u.Scheme != "" {
		vAssume(u.Scheme == "file" || u.Scheme == "http" || u.Scheme == "https")
		vAssume(r.IsCanonical()) // absolute reference: scheme://host/path or file:///path
	} else {
		vAssume(u.Host == "") // a network-path reference (//host/p) is not a file path
	}
	// a directory is not a document
	vAssume(!strings.HasSuffix(u.Path, "/") && !strings.HasSuffix(u.Path, "/.") && !strings.HasSuffix(u.Path, "/..") && u.Path != "." && u.Path != "..")

	var got []string
	loader := func(p string) (json.RawMessage, error) {
		got = append(got, p)
		return nil, vErrLoad
	}
	_, rerr := ResolveRefWithBase(nil, &r, &ExpandOptions{RelativeBase: base, PathLoader: loader})
	vAssert(rerr != nil, "resolution succeeds although the loader refuses every document")
	vAssert(len(got) >= 1, "the loader is never asked for a document")
	if len(got) == 0 {
		return
	}

	// oracle: RFC 3986 §5.2 as implemented by net/url, on the original text of the reference
	bu, _ := url.Parse(base)
	ru, perr := url.Parse(s)
	if perr != nil {
		return
	}
	want := bu.ResolveReference(ru)
	want.Fragment, want.RawFragment = "", ""
	// modulo the canonical form of reference values (C13): lower-case scheme/host, default port, duplicate slashes
	wc, werr := NewRef(want.String())
	if werr != nil {
		return
	}
	for _, g := range got {
		vAssert(g == wc.String(), "the URL handed to the loader differs from RFC 3986 resolution of the $ref against the base")
	}
}

// two hops: the second reference sits in the document the first one designates and is resolved against
// that document's location - also when that location has the referring document's URL as a string prefix
var vC12Hops = [][2]string{
	{"http://h.example/api/v1", "v1.1/defs.json"},              // target URL starts with the text of the base URL
	{"file:///w/spec.json", "spec.json.d/defs.json"},           // the same for files
	{"file:///a/b/base.json", "c/defs.json"},                   // a sub-directory
	{"https://h.example:8443/r/s/base.json", "../t/defs.json"}, // a sibling directory
}

func vh_C12_twohops() {
	hop := vC12Hops[vChoose(len(vC12Hops), "hop")]
	base, first := hop[0], hop[1]
	n := 1 + vChoose(vParam("hop_len", 3), "len")
	s := vNondetStr("ref", n)
	for i := 0; i < n; i++ {
		vAssume(vInSet(s[i], vC12Alphabet))
	}
	vAssume(utf8.ValidString(s))
	for i := 0; i+2 < len(s); i++ {
		vAssume(!(s[i] == '%' && s[i+1] == '2' && (s[i+2] == 'e' || s[i+2] == 'E')))
	}
	r2, err := NewRef(s)
	if err != nil {
		return
	}
	u := r2.GetURL()
	vAssume(u.User == nil && u.Opaque == "" && u.RawQuery == "" && !u.ForceQuery && u.Scheme == "" && u.Host == "")
	vAssume(u.Path != "") // fragment-only: no second document
	vAssume(!strings.HasSuffix(u.Path, "/") && !strings.HasSuffix(u.Path, "/.") && !strings.HasSuffix(u.Path, "/..") && u.Path != "." && u.Path != "..")
	bu, _ := url.Parse(base)
	fu, _ := url.Parse(first)
	d1 := bu.ResolveReference(fu).String()
	d1text := `{"definitions":{"A":{"$ref":"` + s + `"}}}`
	var got []string
	loader := func(p string) (json.RawMessage, error) {
		got = append(got, p)
		if p == d1 {
			return json.RawMessage(d1text), nil
		}
		return nil, vErrLoad
	}
	sch := Schema{SchemaProps: SchemaProps{Ref: MustCreateRef(first + "#/definitions/A")}}
	err = ExpandSchemaWithBasePath(&sch, nil, &ExpandOptions{RelativeBase: base, PathLoader: loader})
	vAssert(err != nil, "expansion succeeds although the loader refuses the second document")
	vAssert(len(got) >= 2 && got[0] == d1, "the first document is not requested first, or the second document is never requested")
	if len(got) < 2 {
		return
	}
	d1u, _ := url.Parse(d1)
	ru, perr := url.Parse(s)
	if perr != nil {
		return
	}
	want := d1u.ResolveReference(ru)
	want.Fragment, want.RawFragment = "", ""
	wc, werr := NewRef(want.String())
	if werr != nil {
		return
	}
	for _, g := range got[1:] {
		vAssert(g == wc.String() || g == d1, "second hop: the URL handed to the loader differs from RFC 3986 resolution of the $ref against the location of the document that contains it")
	}
}
