//go:build verif

package spec

import (
	"encoding/json"
	"errors"
	"net/url"
	"strings"
	"unicode/utf8"
)

// C12 — the document a $ref designates is the one RFC 3986 reference resolution yields.

var vC12Bases = []string{
	"file:///root.json",
	"file:///a/b/base.json",
	"http://h.example/r/base.json",
	"https://h.example:8443/r/s/base.json",
}

var vErrLoad = errors.New("verif: loader refuses every document")

// all byte values, short references
func vh_C12_locate() {
	n := vChoose(vParam("ref_len", 2)+1, "len")
	s := vNondetStr("ref", n)
	vC12Check(s)
}

// longer references over the alphabet of path-segment material the property names:
// plain, dotted, "." / "..", percent-escapes (%2F, %2e, %20 ...), non-ASCII, fragment
const vC12Alphabet = "./%25Fe#a \xc3\xa9"

func vh_C12_alphabet() {
	lo := vParam("ref_len", 2) + 1
	hi := vParam("alpha_len", 5)
	if hi < lo {
		return
	}
	n := lo + vChoose(hi-lo+1, "len")
	s := vNondetStr("ref", n)
	for i := 0; i < n; i++ {
		vAssume(vInSet(s[i], vC12Alphabet))
	}
	vC12Check(s)
}

// absolute references (used as they are): a concrete scheme/authority prefix followed by symbolic bytes
var vC12Prefixes = []string{"file:///", "http://o.example/", "https://o.example/d/", "FILE:///", "http://h.example/r/"}

func vh_C12_absolute() {
	pre := vC12Prefixes[vChoose(len(vC12Prefixes), "prefix")]
	n := vChoose(vParam("abs_tail", 2)+1, "len")
	vC12Check(pre + vNondetStr("ref", n))
}

func vC12Check(s string) {
	base := vC12Bases[vChoose(len(vC12Bases), "base")]
	vAssume(utf8.ValidString(s))
	// an escaped dot is equivalent to a dot (RFC 3986 §6.2.2.2) and the implementation treats it so; net/url's
	// ResolveReference does not, so such references are outside the differential comparison
	for i := 0; i+2 < len(s); i++ {
		vAssume(!(s[i] == '%' && s[i+1] == '2' && (s[i+2] == 'e' || s[i+2] == 'E')))
	}
	r, err := NewRef(s)
	if err != nil {
		return // not a reference
	}
	u := r.GetURL()
	// the property speaks of references made of a file path and an optional fragment, or absolute ones
	vAssume(u.User == nil && u.Opaque == "" && u.RawQuery == "" && !u.ForceQuery)
	if u.Scheme != "" {
		vAssume(u.Scheme == "file" || u.Scheme == "http" || u.Scheme == "https")
		vAssume(r.IsCanonical()) // absolute reference: scheme://host/path or file:///path
	} else {
		vAssume(u.Host == "") // a network-path reference (//host/p) is not a file path
	}
	// a directory is not a document
	vAssume(!strings.HasSuffix(u.Path, "/") && !strings.HasSuffix(u.Path, "/.") && !strings.HasSuffix(u.Path, "/..") && u.Path != "." && u.Path != "..")

	var got []string
	loader := func(p string) (json.RawMessage, error) {
		got = append(got, p)
		return nil, vErrLoad
	}
	_, rerr := ResolveRefWithBase(nil, &r, &ExpandOptions{RelativeBase: base, PathLoader: loader})
	vAssert(rerr != nil, "resolution succeeds although the loader refuses every document")
	vAssert(len(got) >= 1, "the loader is never asked for a document")
	if len(got) == 0 {
		return
	}

	// oracle: RFC 3986 §5.2 as implemented by net/url, on the original text of the reference
	bu, _ := url.Parse(base)
	ru, perr := url.Parse(s)
	if perr != nil {
		return
	}
	want := bu.ResolveReference(ru)
	want.Fragment, want.RawFragment = "", ""
	// modulo the canonical form of reference values (C13): lower-case scheme/host, default port, duplicate slashes
	wc, werr := NewRef(want.String())
	if werr != nil {
		return
	}
	for _, g := range got {
		vAssert(g == wc.String(), "the URL handed to the loader differs from RFC 3986 resolution of the $ref against the base")
	}
}
