//go:build verif

package spec

import (
	"encoding/json"
	"unicode/utf8"
)

// C13 — reference values canonicalise idempotently.

func vRefFlagsEq(a, b *Ref) bool {
	return a.HasFullURL == b.HasFullURL && a.HasURLPathOnly == b.HasURLPathOnly && a.HasFragmentOnly == b.HasFragmentOnly &&
		a.HasFileScheme == b.HasFileScheme && a.HasFullFilePath == b.HasFullFilePath && a.IsRoot() == b.IsRoot() && a.IsCanonical() == b.IsCanonical()
}

func vh_C13_canon() {
	n := vChoose(vParam("ref_len", 4)+1, "len")
	s := vNondetStr("ref", n)
	r, err := NewRef(s)
	if err != nil {
		return // not a reference: outside the property
	}
	u := r.GetURL()
	// property text: authority, if present, is a host with at most one port
	vAssume(u.User == nil)
	vAssume(u.Opaque == "")
	t := r.String()
	r2, err2 := NewRef(t)
	vAssert(err2 == nil, "the printed form of a reference does not parse")
	if err2 != nil {
		return
	}
	vAssert(r2.String() == t, "canonicalisation is not idempotent: String(NewRef(String(r))) != String(r)")
	vAssert(vRefFlagsEq(&r, &r2), "classification flags differ between a reference and the reference parsed from its canonical text")
}

func vRefSame(a, b *Ref) bool {
	return a.String() == b.String() && vRefFlagsEq(a, b) && (a.GetURL() == nil) == (b.GetURL() == nil)
}

// JSON and gob codecs: decode(encode(r)) equals r; {} for the empty reference, a single $ref member otherwise.
func vh_C13_codecs() {
	n := vChoose(vParam("ref_len", 4)+2, "len") // n == ref_len+1 stands for the zero Ref (no URL at all)
	var r Ref
	if n <= vParam("ref_len", 4) {
		s := vNondetStr("ref", n)
		vAssume(utf8.ValidString(s)) // JSON text is UTF-8: a reference that is not cannot be written into a document
		var err error
		r, err = NewRef(s)
		if err != nil {
			return
		}
		u := r.GetURL()
		vAssume(u.User == nil)
		vAssume(u.Opaque == "")
	}
	t := r.String()
	b, err := json.Marshal(r)
	vAssert(err == nil, "json.Marshal(Ref) fails")
	if err != nil {
		return
	}
	if r.GetURL() == nil {
		vAssert(vJSONEq(b, []byte(`{}`)), "the empty reference does not encode as {}")
	} else if t != "" {
		var m map[string]interface{}
		vAssert(json.Unmarshal(b, &m) == nil && len(m) == 1, "a non-empty reference does not encode as a single-member object")
		v, ok := m["$ref"].(string)
		vAssert(ok && v == t, "the $ref member is not the canonical text of the reference")
	}
	var back Ref
	vAssert(json.Unmarshal(b, &back) == nil, "the JSON encoding of a reference does not decode")
	vAssert(vRefSame(&r, &back), "JSON round trip changes the reference")

	gb, err := r.GobEncode()
	vAssert(err == nil, "GobEncode fails")
	if err != nil {
		return
	}
	var gback Ref
	vAssert(gback.GobDecode(gb) == nil, "GobDecode fails on GobEncode output")
	vAssert(vRefSame(&r, &gback), "gob round trip changes the reference")
}
