//go:build verif

package spec

import (
	"bytes"
	"encoding/gob"
	"encoding/json"
)

// C14 — gob transport preserves the document: json(gobDecode(gobEncode(v))) == json(v).

func vC14Check(kind string, v, back interface{}) {
	o := vDocParams()
	doc := vJBytes(vBuildDoc(kind, 1, "d", o))
	if json.Unmarshal(doc, v) != nil {
		return
	}
	before, err := json.Marshal(v)
	if err != nil {
		return
	}
	var buf bytes.Buffer
	eerr := gob.NewEncoder(&buf).Encode(v)
	if eerr != nil {
		vNote("gob encode error: " + eerr.Error())
	}
	vAssert(eerr == nil, kind+": gob encoding of a decoded document fails")
	if eerr != nil {
		return
	}
	derr := gob.NewDecoder(&buf).Decode(back)
	if derr != nil {
		vNote("gob decode error: " + derr.Error())
	}
	vAssert(derr == nil, kind+": gob decoding fails")
	if derr != nil {
		return
	}
	after, err := json.Marshal(back)
	vAssert(err == nil, kind+": the value received through gob does not encode to JSON")
	if err != nil {
		return
	}
	vAssertJSONEq(before, after, kind+": after gob transport")
}

func vh_C14_Schema()    { vC14Check("schema", new(Schema), new(Schema)) }
func vh_C14_Parameter() { vC14Check("parameter", new(Parameter), new(Parameter)) }
func vh_C14_Response()  { vC14Check("response", new(Response), new(Response)) }
func vh_C14_Operation() { vC14Check("operation", new(Operation), new(Operation)) }
func vh_C14_Header()    { vC14Check("header", new(Header), new(Header)) }
func vh_C14_Items()     { vC14Check("items", new(Items), new(Items)) }
func vh_C14_Swagger()   { vC14Check("swagger", new(Swagger), new(Swagger)) }
func vh_C14_Paths()     { vC14Check("paths", new(Paths), new(Paths)) }
func vh_C14_PathItem()  { vC14Check("pathItem", new(PathItem), new(PathItem)) }
func vh_C14_Responses() { vC14Check("responses", new(Responses), new(Responses)) }
