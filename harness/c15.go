//go:build verif

package spec

import (
	"encoding/json"

	"github.com/go-openapi/jsonpointer"
)

// C15 — one pointer step on a typed document agrees with the same step on its JSON encoding.
// Multi-token pointers follow by induction — each step lands on a value of a kind that has its own
// harness — provided the Go value a step returns is one the next step can start from (a **Response encodes
// like a *Response but cannot be walked): vC15Second takes that next step for a few common member names.

var vC15SecondTokens = []string{"description", "type", "name", "$ref"}

func vC15Second(kind string, got interface{}, want []byte) {
	for _, t2 := range vC15SecondTokens {
		w2, ok := vJSONMember(want, t2)
		if !ok {
			continue
		}
		g2, _, err := jsonpointer.GetForToken(got, t2)
		vAssert(err == nil, kind+": a second pointer token that addresses a member of the JSON form fails on the value the first token returned")
		if err != nil {
			continue
		}
		if t2 == "$ref" {
			continue // reached, its value is a Ref object whose own encoding is an object
		}
		b2, merr := json.Marshal(g2)
		if merr == nil {
			vAssert(vJSONEq(b2, w2), kind+": the second pointer step on the typed document differs from the lookup on its JSON form")
		}
	}
}

func vC15Check(kind string, v interface{}) {
	o := vDocParams()
	vPayloadFork = kind == "header" || kind == "items" || kind == "parameter" // the kinds whose lookups special-case simple-schema members
	// upper-case extension prefix: every kind but the four largest (path count; stated in the bounds)
	vExtUpper = kind != "schema" && kind != "swagger" && kind != "operation" && kind != "parameter"
	doc := vJBytes(vBuildDoc(kind, 1, "d", o))
	if json.Unmarshal(doc, v) != nil {
		return
	}
	enc, err := json.Marshal(v)
	if err != nil {
		return
	}
	// the token: any keyword of the kind, or one of the symbolic member names
	nt := len(vTopVocab) + len(vTopNames)
	ti := vChoose(nt, "token")
	var token string
	if ti < len(vTopVocab) {
		token = vTopVocab[ti].Name
	} else {
		token = vTopNames[ti-len(vTopVocab)]
	}
	if token == "$ref" {
		return // the property speaks of plain (non-$ref) members
	}
	vNote("token: " + token)
	want, ok := vJSONMember(enc, token)
	if !ok {
		return // the pointer addresses nothing in the JSON form
	}
	got, _, gerr := jsonpointer.GetForToken(v, token)
	vAssert(gerr == nil, kind+": a pointer token that addresses a member of the JSON form fails on the typed document")
	if gerr != nil {
		return
	}
	gb, merr := json.Marshal(got)
	vAssert(merr == nil, kind+": the value found on the typed document does not encode")
	if merr == nil {
		vAssert(vJSONEq(gb, want), kind+": pointer lookup on the typed document differs from the lookup on its JSON form")
		vC15Second(kind, got, want)
	}
}

func vh_C15_Schema()         { vC15Check("schema", new(Schema)) }
func vh_C15_Parameter()      { vC15Check("parameter", new(Parameter)) }
func vh_C15_Items()          { vC15Check("items", new(Items)) }
func vh_C15_Header()         { vC15Check("header", new(Header)) }
func vh_C15_Response()       { vC15Check("response", new(Response)) }
func vh_C15_Operation()      { vC15Check("operation", new(Operation)) }
func vh_C15_PathItem()       { vC15Check("pathItem", new(PathItem)) }
func vh_C15_SecurityScheme() { vC15Check("securityScheme", new(SecurityScheme)) }
func vh_C15_Info()           { vC15Check("info", new(Info)) }
func vh_C15_Tag()            { vC15Check("tag", new(Tag)) }
func vh_C15_Swagger()        { vC15Check("swagger", new(Swagger)) }

// responses and paths: tokens are status codes, "default", path names, extension names
func vh_C15_Responses() {
	o := vDocParams()
	doc := vJBytes(vBuildDoc("responses", 1, "d", o))
	v := new(Responses)
	if json.Unmarshal(doc, v) != nil {
		return
	}
	enc, err := json.Marshal(v)
	if err != nil {
		return
	}
	token := []string{"default", "200", "404", "099", "600", "99"}[vChoose(6, "token")]
	vNote("token: " + token)
	want, ok := vJSONMember(enc, token)
	if !ok {
		return
	}
	got, _, gerr := jsonpointer.GetForToken(v, token)
	vAssert(gerr == nil, "responses: a pointer token that addresses a member of the JSON form fails on the typed document")
	if gerr != nil {
		return
	}
	gb, merr := json.Marshal(got)
	if merr == nil {
		vAssert(vJSONEq(gb, want), "responses: pointer lookup on the typed document differs from the lookup on its JSON form")
		vC15Second("responses", got, want)
	}
}

// paths: tokens are path names (one symbolic byte between "/" and a digit: "/~0", "/~1", "/%0", "/{0" are
// among them) and extension names; the token handed to the typed document is the member name itself
// (jsonpointer has already decoded it)
func vh_C15_Paths() {
	o := vDocParams()
	doc := vJBytes(vBuildDoc("paths", 1, "d", o))
	v := new(Paths)
	if json.Unmarshal(doc, v) != nil {
		return
	}
	enc, err := json.Marshal(v)
	if err != nil {
		return
	}
	token := vTopNames[vChoose(len(vTopNames), "token")]
	vNote("token: " + token)
	want, ok := vJSONMember(enc, token)
	if !ok {
		return
	}
	got, _, gerr := jsonpointer.GetForToken(v, token)
	vAssert(gerr == nil, "paths: a pointer token that addresses a member of the JSON form fails on the typed document")
	if gerr != nil {
		return
	}
	gb, merr := json.Marshal(got)
	if merr == nil {
		vAssert(vJSONEq(gb, want), "paths: pointer lookup on the typed document differs from the lookup on its JSON form")
		vC15Second("paths", got, want)
	}
}
