//go:build verif

package spec

import "encoding/json"

// C16 — calls share no hidden state: a call made after other calls behaves like the same call made first.

// the second world: same locations as the first, other content
func vWorldOther() *vWorld {
	w := &vWorld{root: vURoot, docs: map[string]string{}}
	w.docs[vURoot] = `{"swagger":"2.0","info":{"title":"t2","version":"2"},"paths":{},"definitions":{"A":{"description":"other-a","properties":{"x":{"$ref":"` + vSpell(vURoot, vUSub, "/definitions/C%20d", 1) + `"}}},"B":{"description":"other-b"}}}`
	w.docs[vUSub] = `{"definitions":{"C d":{"description":"other-c","items":{"$ref":"` + vSpell(vUSub, vUFar, "/definitions/D", 1) + `"}}}}`
	w.docs[vUFar] = `{"definitions":{"D":{"description":"other-d"}}}`
	return w
}

type vCallResult struct {
	out []byte
	err bool
	log []string
}

// one public call on a world, with fresh options and no cache
func vCall(kind int, w *vWorld) vCallResult {
	w.loads = nil
	opts := &ExpandOptions{RelativeBase: w.root, PathLoader: w.loader}
	keep := *opts
	var res vCallResult
	switch kind {
	case 0:
		root, ok := w.decodeRoot()
		if !ok {
			return res
		}
		err := ExpandSpec(root, opts)
		res.err = err != nil
		res.out, _ = json.Marshal(root)
	case 1:
		root, ok := w.decodeRoot()
		if !ok {
			return res
		}
		s := root.Definitions["A"]
		err := ExpandSchema(&s, root, nil)
		res.err = err != nil
		res.out, _ = json.Marshal(s)
	case 4: // options without a base location
		opts = &ExpandOptions{PathLoader: w.loader}
		keep = *opts
		root, ok := w.decodeRoot()
		if !ok {
			return res
		}
		err := ExpandSpec(root, opts)
		res.err = err != nil
		res.out, _ = json.Marshal(root)
	case 2:
		r := MustCreateRef(vSpell(vURoot, vUSub, "/definitions/C%20d", 1))
		s, err := ResolveRefWithBase(nil, &r, opts)
		res.err = err != nil
		if err == nil {
			res.out, _ = json.Marshal(s)
		}
	default:
		var s Schema
		_ = json.Unmarshal([]byte(`{"$ref":"`+w.root+`#/definitions/A"}`), &s)
		err := ExpandSchemaWithBasePath(&s, nil, opts)
		res.err = err != nil
		res.out, _ = json.Marshal(s)
	}
	vAssert(opts.RelativeBase == keep.RelativeBase && opts.SkipSchemas == keep.SkipSchemas && opts.ContinueOnError == keep.ContinueOnError && opts.AbsoluteCircularRef == keep.AbsoluteCircularRef,
		"a call modified the option structure given by the caller")
	res.log = append([]string(nil), w.loads...)
	return res
}

func vSameResult(a, b vCallResult) bool {
	if a.err != b.err || len(a.log) != len(b.log) {
		return false
	}
	for i := range a.log {
		if a.log[i] != b.log[i] {
			return false
		}
	}
	if a.out == nil || b.out == nil {
		return (a.out == nil) == (b.out == nil)
	}
	return vJSONBytesEq(a.out, b.out)
}

func vh_C16_history() {
	set := vChoose(2, "urlset")
	vUseURLSet(set)
	w1 := vWorldSmallIn(set)
	w2 := vWorldOther()
	k2 := vChoose(5, "call2")
	ref := vCall(k2, w2) // the reference: this call made first, from pristine package state
	n := 1 + vChoose(vParam("history", 2), "history_len")
	for i := 0; i < n; i++ {
		_ = vCall(vChoose(5, "call1"), w1)
	}
	got := vCall(k2, w2)
	vAssert(vSameResult(ref, got), "a call gives another result (or loads other documents) after earlier calls than when made first")
}

// the built-in meta-schemas stay resolvable and unmodified (they are decoded for real in this harness)
func vh_C16_metaschemas() {
	vUseRealMetaSchemas()
	r := MustCreateRef("http://swagger.io/v2/schema.json#/definitions/info")
	w := vWorldOther()
	s0, err0 := ResolveRefWithBase(nil, &r, &ExpandOptions{PathLoader: w.loader})
	vAssert(err0 == nil, "the built-in Swagger 2.0 meta-schema is not resolvable")
	if err0 != nil {
		return
	}
	b0, _ := json.Marshal(s0)
	// expand a document that refers to the meta-schema, then expand the meta-schema's element itself
	var s Schema
	_ = json.Unmarshal([]byte(`{"properties":{"i":{"$ref":"http://swagger.io/v2/schema.json#/definitions/info"}}}`), &s)
	_ = ExpandSchemaWithBasePath(&s, nil, &ExpandOptions{RelativeBase: w.root, PathLoader: w.loader})
	_ = vCall(vChoose(4, "call"), w)
	// expanding a schema that is the whole draft-04 meta-schema must not rewrite the built-in copy
	d4 := MustCreateRef("http://json-schema.org/draft-04/schema#/properties/maxLength")
	m0, e0 := ResolveRefWithBase(nil, &d4, &ExpandOptions{PathLoader: w.loader})
	var whole Schema
	_ = json.Unmarshal([]byte(`{"$ref":"http://json-schema.org/draft-04/schema"}`), &whole)
	_ = ExpandSchemaWithBasePath(&whole, nil, &ExpandOptions{RelativeBase: w.root, PathLoader: w.loader})
	m1, e1 := ResolveRefWithBase(nil, &d4, &ExpandOptions{PathLoader: w.loader})
	vAssert((e0 == nil) == (e1 == nil), "the built-in draft-04 meta-schema stops resolving after it was expanded")
	if e0 == nil && e1 == nil {
		x0, _ := json.Marshal(m0)
		x1, _ := json.Marshal(m1)
		vAssert(vJSONBytesEq(x0, x1), "expanding the built-in draft-04 meta-schema rewrote the built-in copy")
	}
	s1, err1 := ResolveRefWithBase(nil, &r, &ExpandOptions{PathLoader: w.loader})
	vAssert(err1 == nil, "the built-in meta-schema is no longer resolvable after other calls")
	if err1 == nil {
		b1, _ := json.Marshal(s1)
		vAssert(vJSONBytesEq(b0, b1), "the built-in meta-schema was modified by earlier calls")
	}
	for _, u := range w.loads {
		vAssert(u != "http://swagger.io/v2/schema.json", "the built-in meta-schema is requested from the loader")
	}
}

// the meta-schema accessors hand every caller an object of its own: what a caller does to it is not seen by
// the next caller, nor by later resolutions of the built-in documents
func vh_C16_accessors() {
	vUseRealMetaSchemas()
	which := vChoose(2, "accessor")
	get := func() *Schema {
		if which == 0 {
			return MustLoadSwagger20Schema()
		}
		return MustLoadJSONSchemaDraft04()
	}
	a := get()
	before, _ := json.Marshal(a)
	// the caller uses its copy as it pleases
	a.Title = "changed by the caller"
	a.Description = "changed by the caller"
	for k := range a.Definitions {
		delete(a.Definitions, k)
	}
	a.Properties = nil
	b := get()
	after, _ := json.Marshal(b)
	vAssert(vJSONBytesEq(before, after), "a meta-schema accessor returns an object a previous caller modified")
	// and the built-in document the resolver serves is not that object either
	w := vWorldOther()
	r := MustCreateRef([]string{"http://swagger.io/v2/schema.json#/definitions/info", "http://json-schema.org/draft-04/schema#/definitions/positiveInteger"}[which])
	_, err := ResolveRefWithBase(nil, &r, &ExpandOptions{PathLoader: w.loader})
	vAssert(err == nil, "after a caller modified the object an accessor gave it, the built-in meta-schema no longer resolves")
}

// the package-level default loader is read when a call needs it, not remembered from an earlier call
func vh_C16_defaultloader() {
	saved := PathLoader
	defer func() { PathLoader = saved }()
	w1 := vWorldSmallIn(0)
	w2 := vWorldOther()
	r := MustCreateRef(vUSub + "#/definitions/C%20d")
	PathLoader = w1.loader
	s1, err1 := ResolveRefWithBase(nil, &r, &ExpandOptions{RelativeBase: vURoot})
	PathLoader = w2.loader
	w2.loads = nil
	s2, err2 := ResolveRefWithBase(nil, &r, &ExpandOptions{RelativeBase: vURoot})
	vAssert(err1 == nil && err2 == nil, "resolution through the package-level default loader fails")
	if err1 != nil || err2 != nil {
		return
	}
	vAssert(len(w2.loads) > 0, "after spec.PathLoader was replaced, a call still loads through the loader of an earlier call")
	b1, _ := json.Marshal(s1)
	b2, _ := json.Marshal(s2)
	var want interface{}
	_ = json.Unmarshal([]byte(w2.docs[vUSub]), &want)
	wd, _ := vPtrEval(want, "/definitions/C d")
	wb, _ := json.Marshal(wd)
	_ = b1
	vAssert(vJSONEq(b2, wb), "after spec.PathLoader was replaced, a call returns the content served by the loader of an earlier call")
}
