//go:build verif

package spec

import (
	"encoding/json"

	"github.com/go-openapi/jsonpointer"
)

// C17 — thread bodies. Each vt_C17_* function is one public call as a goroutine would make it; the engine
// records its accesses to shared state (package state, values marked with vShare) and the mutex / Once
// operations around them. Pairs of recorded traces are then checked for data races by an SMT encoding of
// their interleavings. Natively the same bodies are run concurrently under `go test -race`.

func vC17World() *vWorld { return vC17WorldL("") }

// vC17WorldL: the same shape of documents with other contents (label), at the same locations: what one
// goroutine computes on its documents must not show up in the answer of another
func vC17WorldL(l string) *vWorld {
	// no writes to harness globals here: natively these bodies run concurrently
	const vURoot, vUSub, vUFar = "file:///w/root.json", "file:///w/sub/a.json", "file:///x/c.json"
	w := &vWorld{root: vURoot, docs: map[string]string{}}
	w.docs[vURoot] = `{"swagger":"2.0","info":{"title":"t","version":"1"},"paths":{},"definitions":{"A":{"description":"` + l + `a","properties":{"x":{"$ref":"sub/a.json#/definitions/C%20d"}}},"B":{"description":"` + l + `b","items":{"$ref":"#/definitions/A"}}}}`
	w.docs[vUSub] = `{"definitions":{"C d":{"description":"` + l + `c","items":{"$ref":"../../x/c.json#/definitions/D"}}}}`
	w.docs[vUFar] = `{"definitions":{"D":{"description":"` + l + `d"}}}`
	return w
}

// vAns: the answer of a call as text (result and error), compared natively with the sequential answer
func vAns(v interface{}, err error) string {
	b, _ := json.Marshal(v)
	if err != nil {
		return string(b) + " error: " + err.Error()
	}
	return string(b)
}

// distinct documents, no cache
func vt_C17_expandSpec() string {
	w := vC17World()
	root, _ := w.decodeRoot()
	vTraceBegin()
	err := ExpandSpec(root, &ExpandOptions{RelativeBase: w.root, PathLoader: w.loader})
	vTraceEnd("t")
	return vAns(root, err)
}

func vC17ExpandSchema(l string) string {
	w := vC17WorldL(l)
	root, _ := w.decodeRoot()
	s := root.Definitions["B"]
	vTraceBegin()
	err := ExpandSchema(&s, root, nil)
	vTraceEnd("t")
	return vAns(&s, err)
}

func vt_C17_expandSchema() string    { return vC17ExpandSchema("") }
func vt_C17_expandSchemaAlt() string { return vC17ExpandSchema("alt-") } // another document with the same definition names

func vt_C17_resolve() string {
	w := vC17World()
	r := MustCreateRef("sub/a.json#/definitions/C%20d")
	vTraceBegin()
	got, err := ResolveRefWithBase(nil, &r, &ExpandOptions{RelativeBase: w.root, PathLoader: w.loader})
	vTraceEnd("t")
	return vAns(got, err)
}

// one resolution cache shared by the goroutines, same set of documents
func vt_C17_sharedCache() string {
	w := vC17World()
	root, _ := w.decodeRoot()
	s := root.Definitions["A"]
	c := vSharedCache()
	vTraceBegin()
	err := ExpandSchemaWithBasePath(&s, c, &ExpandOptions{RelativeBase: w.root, PathLoader: w.loader})
	vTraceEnd("t")
	return vAns(&s, err)
}

// a shared document that nobody mutates: encoding and pointer evaluation
func vt_C17_marshalShared() string {
	doc := vSharedDoc()
	vTraceBegin()
	b, err := json.Marshal(doc)
	vTraceEnd("t")
	return vAns(json.RawMessage(b), err)
}

func vt_C17_lookupShared() string {
	doc := vSharedDoc()
	p, _ := jsonpointer.New("/definitions/A/properties/x")
	vTraceBegin()
	got, _, err := p.Get(doc)
	vTraceEnd("t")
	return vAns(got, err)
}

// one options value (empty base, no loader) shared by goroutines that expand their own documents: the
// library may read it, never write it
const vC17LocalDoc = `{"swagger":"2.0","info":{"title":"t","version":"1"},"paths":{},"definitions":{"A":{"description":"a","properties":{"x":{"$ref":"#/definitions/B"}}},"B":{"description":"b"}}}`

func vt_C17_sharedOptions() string {
	var root Swagger
	_ = json.Unmarshal([]byte(vC17LocalDoc), &root)
	o := vSharedOpts()
	vTraceBegin()
	err := ExpandSpec(&root, o)
	vTraceEnd("t")
	return vAns(&root, err)
}

// one typed root document and one cache, both shared and already used by an earlier, finished call (the way
// go-openapi/validate works): every call sets the root pseudo-document again (an existing key), and every
// call reads the root — through a pointer that ends on a schema held by reference inside it — without
// writing to it
const vC17RootDoc = `{"swagger":"2.0","info":{"title":"t","version":"1"},"paths":{},"definitions":{"A":{"description":"a","not":{"description":"n","properties":{"x":{"$ref":"#/definitions/B"}}}},"B":{"description":"b"}}}`

func vt_C17_sharedRootWarmCache() string {
	root, c := vSharedRootAndCache()
	var s Schema
	_ = json.Unmarshal([]byte(`{"items":{"$ref":"#/definitions/A/not"}}`), &s)
	vTraceBegin()
	err := ExpandSchema(&s, root, c)
	vTraceEnd("t")
	return vAns(&s, err)
}
