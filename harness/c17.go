//go:build verif

package spec

import (
	"encoding/json"

	"github.com/go-openapi/jsonpointer"
)

// C17 — thread bodies. Each vt_C17_* function is one public call as a goroutine would make it; the engine
// records its accesses to shared state (package state, values marked with vShare) and the mutex / Once
// operations around them. Pairs of recorded traces are then checked for data races by an SMT encoding of
// their interleavings. Natively the same bodies are run concurrently under `go test -race`.

func vC17World() *vWorld {
	// no writes to harness globals here: natively these bodies run concurrently
	const vURoot, vUSub, vUFar = "file:///w/root.json", "file:///w/sub/a.json", "file:///x/c.json"
	w := &vWorld{root: vURoot, docs: map[string]string{}}
	w.docs[vURoot] = `{"swagger":"2.0","info":{"title":"t","version":"1"},"paths":{},"definitions":{"A":{"description":"a","properties":{"x":{"$ref":"sub/a.json#/definitions/C%20d"}}},"B":{"description":"b","items":{"$ref":"#/definitions/A"}}}}`
	w.docs[vUSub] = `{"definitions":{"C d":{"description":"c","items":{"$ref":"../../x/c.json#/definitions/D"}}}}`
	w.docs[vUFar] = `{"definitions":{"D":{"description":"d"}}}`
	return w
}

// distinct documents, no cache
func vt_C17_expandSpec() {
	w := vC17World()
	root, _ := w.decodeRoot()
	vTraceBegin()
	_ = ExpandSpec(root, &ExpandOptions{RelativeBase: w.root, PathLoader: w.loader})
	vTraceEnd("t")
}

func vt_C17_expandSchema() {
	w := vC17World()
	root, _ := w.decodeRoot()
	s := root.Definitions["B"]
	vTraceBegin()
	_ = ExpandSchema(&s, root, nil)
	vTraceEnd("t")
}

func vt_C17_resolve() {
	w := vC17World()
	r := MustCreateRef("sub/a.json#/definitions/C%20d")
	vTraceBegin()
	_, _ = ResolveRefWithBase(nil, &r, &ExpandOptions{RelativeBase: w.root, PathLoader: w.loader})
	vTraceEnd("t")
}

// one resolution cache shared by the goroutines, same set of documents
func vt_C17_sharedCache() {
	w := vC17World()
	root, _ := w.decodeRoot()
	s := root.Definitions["A"]
	c := vSharedCache()
	vTraceBegin()
	_ = ExpandSchemaWithBasePath(&s, c, &ExpandOptions{RelativeBase: w.root, PathLoader: w.loader})
	vTraceEnd("t")
}

// a shared document that nobody mutates: encoding and pointer evaluation
func vt_C17_marshalShared() {
	doc := vSharedDoc()
	vTraceBegin()
	_, _ = json.Marshal(doc)
	vTraceEnd("t")
}

func vt_C17_lookupShared() {
	doc := vSharedDoc()
	p, _ := jsonpointer.New("/definitions/A/properties/x")
	vTraceBegin()
	_, _, _ = p.Get(doc)
	vTraceEnd("t")
}
