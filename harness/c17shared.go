//go:build verif && !verifnative

package spec

import "encoding/json"

const vC17DocText = `{"swagger":"2.0","info":{"title":"t","version":"1"},"paths":{},"definitions":{"A":{"description":"a","properties":{"x":{"type":"string","x-e":1,"const":1}}}}}`

// under the executor every thread body builds the shared value the same way and marks it shared
func vSharedDoc() *Swagger {
	doc := new(Swagger)
	_ = json.Unmarshal([]byte(vC17DocText), doc)
	vShare(doc, "doc")
	return doc
}

func vSharedCache() ResolutionCache {
	c := defaultResolutionCache()
	vShare(c, "cache")
	return c
}

func vSharedOpts() *ExpandOptions {
	o := &ExpandOptions{}
	vShare(o, "opts")
	return o
}

func vSharedRootAndCache() (*Swagger, ResolutionCache) {
	root := new(Swagger)
	_ = json.Unmarshal([]byte(vC17RootDoc), root)
	c := defaultResolutionCache()
	var s Schema
	_ = json.Unmarshal([]byte(`{"$ref":"#/definitions/B"}`), &s)
	_ = ExpandSchema(&s, root, c) // an earlier call, finished before the goroutines start
	vShare(root, "root")
	vShare(c, "warmcache")
	return root, c
}
