//go:build verif

package spec

import "encoding/json"

// C18 — a resolution cache is transparent; each document is fetched at most once; cached documents never.

type vCache struct{ m map[string]interface{} }

func (c *vCache) Get(k string) (interface{}, bool) { v, ok := c.m[k]; return v, ok }
func (c *vCache) Set(k string, v interface{})      { c.m[k] = v }

func vWorldSmall() *vWorld { return vWorldSmallIn(0) }

func vWorldSmallIn(set int) *vWorld {
	vUseURLSet(set)
	kp := vChoose(vParam("kwpos", 2), "kwpos")
	ts := []vTarget{{doc: vURoot, frag: "/definitions/A", single: true}, {doc: vURoot, frag: "/definitions/B"}, {doc: vUSub, frag: "/definitions/C%20d"}, {doc: vUFar, frag: "/definitions/D", single: true},
		{doc: vUFar + "?rev=2", frag: "/definitions/D", single: true}} // same document, spelled with a query
	a := vPickRef("A", vURoot, ts)
	b := vPickRef("B", vURoot, ts)
	c := vPickRef("C", vUSub, []vTarget{{doc: vUFar, frag: "/definitions/D", single: true}, {doc: vURoot, frag: "/definitions/A", single: true}, {doc: vUSub, frag: "/definitions/C%20d", single: true}})
	// optionally a second reference from A to the third document, spelled with a query
	defA := vDefJSON("la", kp, vRefJSON(a))
	if vChoose(2, "second_ref") == 1 && vKwPos[kp] != "not" {
		defA = defA[:len(defA)-1] + `,"not":{"$ref":"` + vUFar + `?rev=2#/definitions/D"}}`
	}
	w := &vWorld{root: vURoot, docs: map[string]string{}}
	w.docs[vURoot] = `{"swagger":"2.0","info":{"title":"t","version":"1"},"paths":{},"definitions":{"A":` + defA + `,"B":` + vDefJSON("lb", kp, vRefJSON(b)) + `}}`
	w.docs[vUSub] = `{"definitions":{"C d":` + vDefJSON("lc", kp, vRefJSON(c)) + `}}`
	w.docs[vUFar] = `{"definitions":{"D":{"description":"ld"}}}`
	return w
}

func vLoadedAtMostOnce(log []string) bool {
	for i := range log {
		for j := i + 1; j < len(log); j++ {
			if log[i] == log[j] {
				return false
			}
		}
	}
	return true
}

func vExpandDef(w *vWorld, name string, cache ResolutionCache) ([]byte, error, []string) {
	root, ok := w.decodeRoot()
	if !ok {
		return nil, nil, nil
	}
	s := root.Definitions[name]
	w.loads = nil
	err := ExpandSchemaWithBasePath(&s, cache, &ExpandOptions{RelativeBase: w.root, PathLoader: w.loader})
	if err != nil {
		return nil, err, w.loads
	}
	out, _ := json.Marshal(s)
	return out, nil, w.loads
}

func vh_C18_cache() {
	w := vWorldSmall()
	ref, rerr, log0 := vExpandDef(w, "A", nil)
	vAssert(vLoadedAtMostOnce(log0), "without a cache: a document is requested from the loader more than once in one expansion")
	// no cache means no memory: the same call again asks the loader for the same documents and gives the same result
	ref2, rerr2, log0b := vExpandDef(w, "A", nil)
	vAssert(vSameLog(log0, log0b), "without a cache: a second identical expansion does not ask the loader for the same documents (something was remembered)")
	vAssert((rerr == nil) == (rerr2 == nil) && (rerr != nil || vJSONBytesEq(ref, ref2)), "without a cache: a second identical expansion gives another result")
	var cache ResolutionCache
	preloaded := map[string]bool{}
	switch vChoose(3, "cachestate") {
	case 0: // fresh, empty
		cache = &vCache{m: map[string]interface{}{}}
	case 1: // pre-loaded with any subset of the documents
		c := &vCache{m: map[string]interface{}{}}
		for _, u := range []string{vURoot, vUSub, vUFar} {
			if vNondetBool("preload") {
				var d interface{}
				if json.Unmarshal([]byte(w.docs[u]), &d) == nil {
					c.m[u] = d
					preloaded[u] = true
				}
			}
		}
		cache = c
	default: // reused from an earlier expansion of another element of the same root
		c := &vCache{m: map[string]interface{}{}}
		_, _, _ = vExpandDef(w, "B", c)
		cache = c
		for u := range c.m {
			preloaded[u] = true
		}
	}
	got, gerr, log1 := vExpandDef(w, "A", cache)
	vAssert((rerr == nil) == (gerr == nil), "supplying a cache changes whether the expansion succeeds")
	if rerr == nil && gerr == nil {
		vAssert(vJSONBytesEq(ref, got), "supplying a cache changes the result of the expansion")
	}
	vAssert(vLoadedAtMostOnce(log1), "with a cache: a document is requested from the loader more than once in one expansion")
	for _, u := range log1 {
		vAssert(!preloaded[u], "a document already present in the supplied cache is requested from the loader")
	}
}

// a sub-schema that declares an id: it is held in memory under the URL its id designates; references
// inside its scope are resolved against that URL and never make the loader fetch it
func vh_C18_idscope() {
	vUseURLSet(0)
	id := []string{"types/address.json", "file:///w/types/address.json", "types/"}[vChoose(3, "id")]
	inner := []string{"#/definitions/zip", "common.json#/definitions/country", "address.json#/definitions/zip"}[vChoose(3, "inner")]
	if id == "types/" && inner == "address.json#/definitions/zip" {
		return // a folder id names no file of its own
	}
	text := `{"type":"object","properties":{"address":{"id":"` + id + `","type":"object","definitions":{"zip":{"type":"string","description":"zip"}},` +
		`"properties":{"one":{"$ref":"` + inner + `"},"two":{"$ref":"` + inner + `"}}}}}`
	w := &vWorld{root: vURoot, docs: map[string]string{}}
	w.docs[vURoot] = text
	w.docs["file:///w/types/common.json"] = `{"definitions":{"country":{"type":"string","description":"country"}}}`
	run := func(cache ResolutionCache) ([]byte, error, []string) {
		var s Schema
		if json.Unmarshal([]byte(text), &s) != nil {
			return nil, nil, nil
		}
		w.loads = nil
		err := ExpandSchemaWithBasePath(&s, cache, &ExpandOptions{RelativeBase: w.root, PathLoader: w.loader})
		if err != nil {
			return nil, err, w.loads
		}
		out, _ := json.Marshal(s)
		return out, nil, w.loads
	}
	ref, rerr, log0 := run(nil)
	if rerr != nil {
		vNote("error: " + rerr.Error())
	}
	vAssert(rerr == nil, "a schema whose references stay inside the scope of its id (or name an existing sibling document) fails to expand")
	vAssert(vLoadedAtMostOnce(log0), "without a cache: a document is requested from the loader more than once in one expansion")
	for _, u := range log0 {
		vAssert(u != "file:///w/types/address.json" && u != "file:///w/types/placeholder.json", "the loader is asked for the document an id merely names (the schema is held in memory)")
	}
	cache := &vCache{m: map[string]interface{}{}}
	if vChoose(2, "cachestate") == 1 {
		_, _, _ = run(cache) // reused
	}
	had := map[string]bool{}
	for u := range cache.m {
		had[u] = true
	}
	got, gerr, log1 := run(cache)
	vAssert((rerr == nil) == (gerr == nil), "supplying a cache changes whether the expansion succeeds")
	if rerr == nil && gerr == nil {
		vAssert(vJSONBytesEq(ref, got), "supplying a cache changes the result of the expansion")
	}
	vAssert(vLoadedAtMostOnce(log1), "with a cache: a document is requested from the loader more than once in one expansion")
	for _, u := range log1 {
		vAssert(!had[u], "a document already present in the supplied cache is requested from the loader")
	}
}
