//go:build verif

package spec

import "encoding/json"

// C19 — a document that validates against the shipped Swagger 2.0 meta-schema still validates after
// decode/encode. Validity is the meta-schema compiled to a solver predicate; every witness is judged again
// by python jsonschema (Draft4Validator) in the native replay.

func vC19Check(kind, metaKind string, target interface{}) {
	o := vDocParams()
	doc := vJBytes(vBuildDoc(kind, 1, "d", o))
	vAssumeWhole(vValidKind(doc, metaKind))
	if json.Unmarshal(doc, target) != nil {
		return
	}
	out, err := json.Marshal(target)
	if err != nil {
		return
	}
	vAssert(vValidKind(out, metaKind), kind+": a valid document is no longer valid after decode/encode")
}

func vh_C19_Info()         { vC19Check("info", "info", new(Info)) }
func vh_C19_Contact()      { vC19Check("contact", "contact", new(ContactInfo)) }
func vh_C19_License()      { vC19Check("license", "license", new(License)) }
func vh_C19_Tag()          { vC19Check("tag", "tag", new(Tag)) }
func vh_C19_ExternalDocs() { vC19Check("externalDocs", "externalDocs", new(ExternalDocumentation)) }
func vh_C19_XML()          { vC19Check("xml", "xml", new(XMLObject)) }
func vh_C19_Header()       { vC19Check("header", "header", new(Header)) }
func vh_C19_Items()        { vC19Check("items", "primitivesItems", new(Items)) }
func vh_C19_Response()     { vC19Check("response", "response", new(Response)) }
func vh_C19_Responses()    { vC19Check("responses", "responses", new(Responses)) }
func vh_C19_Parameter()    { vC19Check("parameter", "parameter", new(Parameter)) }
func vh_C19_Operation()    { vC19Check("operation", "operation", new(Operation)) }
func vh_C19_PathItem()     { vC19Check("pathItem", "pathItem", new(PathItem)) }
func vh_C19_Schema()       { vC19Check("schema", "schema", new(Schema)) }
func vh_C19_Swagger()      { vC19Check("swagger", "swagger", new(Swagger)) }
func vh_C19_SecurityScheme() {
	// the flavour decides which definition of the meta-schema applies
	o := vDocParams()
	doc := vJBytes(vBuildDoc("securityScheme", 1, "d", o))
	var s SecurityScheme
	// securityDefinitions.additionalProperties is the oneOf over the six flavours: validate a one-entry map
	wrap := func(b []byte) []byte {
		var raw json.RawMessage = b
		m := map[string]json.RawMessage{"k": raw}
		out, _ := json.Marshal(m)
		return out
	}
	vAssumeWhole(vValidKind(wrap(doc), "securityDefinitions"))
	if json.Unmarshal(doc, &s) != nil {
		return
	}
	out, err := json.Marshal(s)
	if err != nil {
		return
	}
	vAssert(vValidKind(wrap(out), "securityDefinitions"), "securityScheme: a valid document is no longer valid after decode/encode")
}

// ---- expansion half: a valid document whose re-encoding is valid is still valid after a successful expansion ----
//
// A small whole specification, valid by construction, in which one element (a parameter, a response, a
// schema, a path item or an operation) is the symbolic free-form document of the round-trip harnesses and
// is reached through references from the root document and from a second document. (A symbolic path item
// is not among the kinds: seven symbolic operations under expansion did not finish within 25 minutes; the
// referenced path item of the world is concrete.) The round-trip half
// is taken as an assumption here (its own harnesses decide it and own its known findings), so that
// this obligation isolates what the expander does to the document.

func vJRef(ref string) vJ {
	r := vJObj()
	vJAdd(r, true, "$ref", vJStr(ref))
	return r
}

func vJMember(name string, v vJ) vJ {
	o := vJObj()
	vJAdd(o, true, name, v)
	return o
}

func vC19Pet(label string) vJ {
	pet := vJObj()
	vJAdd(pet, true, "description", vJStr(label))
	vJAdd(pet, true, "type", vJStr("object"))
	vJAdd(pet, true, "properties", vJMember("friend", vJRef("#/definitions/Pet")))
	return pet
}

func vC19World(kind string, target vJ) (vJ, vJ) {
	pick := func(k string, dflt vJ) vJ {
		if k == kind {
			return target
		}
		return dflt
	}
	plain := func(members ...string) vJ {
		o := vJObj()
		for i := 0; i+1 < len(members); i += 2 {
			vJAdd(o, true, members[i], vJStr(members[i+1]))
		}
		return o
	}
	defs := func(label string) vJ {
		d := vJObj()
		vJAdd(d, true, "Pet", vC19Pet(label))
		vJAdd(d, true, "T", pick("schema", plain("type", "string")))
		return d
	}
	resp := func(label string) vJ {
		r := plain("description", label)
		vJAdd(r, true, "schema", vJRef("#/definitions/T"))
		return r
	}
	body := plain("name", "b", "in", "body")
	vJAdd(body, true, "schema", vJRef("#/definitions/T"))

	// the second document: targets of the cross-document references
	sub := vJObj()
	vJAdd(sub, true, "definitions", defs("sub-pet"))
	vJAdd(sub, true, "parameters", vJMember("Q1", pick("parameter", plain("name", "q1", "in", "header", "type", "string"))))
	vJAdd(sub, true, "responses", vJMember("S1", pick("response", resp("s1"))))
	subOp := vJObj()
	vJAdd(subOp, true, "parameters", vJArr([]vJ{vJRef("#/parameters/Q1")}))
	vJAdd(subOp, true, "responses", vJMember("default", vJRef("#/responses/S1")))
	vJAdd(sub, true, "x-items", vJMember("I1", pick("pathItem", vJMember("post", subOp))))

	root := vJObj()
	vJAdd(root, true, "swagger", vJStr("2.0"))
	vJAdd(root, true, "info", plain("title", "t", "version", "1"))
	vJAdd(root, true, "definitions", defs("root-pet"))
	params := vJObj()
	vJAdd(params, true, "P1", pick("parameter", plain("name", "p1", "in", "query", "type", "string")))
	vJAdd(params, true, "B", body)
	vJAdd(root, true, "parameters", params)
	vJAdd(root, true, "responses", vJMember("R1", pick("response", resp("r1"))))
	op := vJObj()
	vJAdd(op, true, "parameters", vJArr([]vJ{vJRef("sub/a.json#/parameters/Q1"), vJRef("#/parameters/B")}))
	rs := vJObj()
	vJAdd(rs, true, "200", vJRef("#/responses/R1"))
	vJAdd(rs, true, "default", vJRef("sub/a.json#/responses/S1"))
	vJAdd(op, true, "responses", rs)
	item := vJObj()
	vJAdd(item, true, "parameters", vJArr([]vJ{vJRef("#/parameters/P1")}))
	vJAdd(item, true, "get", op)
	if kind == "operation" {
		vJAdd(item, true, "put", target)
	}
	paths := vJObj()
	vJAdd(paths, true, "/p", item)
	vJAdd(paths, true, "/q", vJRef("sub/a.json#/x-items/I1"))
	vJAdd(root, true, "paths", paths)
	return root, sub
}

func vC19Expand(kind string) {
	o := vDocParams()
	root, sub := vC19World(kind, vBuildDoc(kind, 1, "d", o))
	rootB := vJBytes(root)
	vAssumeWhole(vValidKind(rootB, "swagger"))
	ld := &vAbsLoader{docs: map[string][]byte{vURoot: rootB, vUSub: vJBytes(sub)}}
	var sw Swagger
	if json.Unmarshal(rootB, &sw) != nil {
		return
	}
	re, err := json.Marshal(&sw)
	if err != nil {
		return
	}
	vAssumeWhole(vValidKind(re, "swagger")) // the round-trip half: decided by the harnesses above
	if err := ExpandSpec(&sw, &ExpandOptions{RelativeBase: vURoot, PathLoader: ld.load}); err != nil {
		vNote("expansion error: " + err.Error())
		return // the property speaks of successful expansions
	}
	out, err := json.Marshal(&sw)
	vAssert(err == nil, kind+": the expanded specification does not encode")
	if err != nil {
		return
	}
	vAssert(vValidKind(out, "swagger"), kind+": a valid specification is no longer valid after expansion")
}

func vh_C19_expand_parameter() { vC19Expand("parameter") }
func vh_C19_expand_response()  { vC19Expand("response") }
func vh_C19_expand_schema()    { vC19Expand("schema") }
func vh_C19_expand_operation() { vC19Expand("operation") }
