//go:build verif

package spec

import "encoding/json"

// C19 — a document that validates against the shipped Swagger 2.0 meta-schema still validates after
// decode/encode. Validity is the meta-schema compiled to a solver predicate; every witness is judged again
// by python jsonschema (Draft4Validator) in the native replay.

func vC19Check(kind, metaKind string, target interface{}) {
	o := vDocParams()
	doc := vJBytes(vBuildDoc(kind, 1, "d", o))
	vAssumeWhole(vValidKind(doc, metaKind))
	if json.Unmarshal(doc, target) != nil {
		return
	}
	out, err := json.Marshal(target)
	if err != nil {
		return
	}
	vAssert(vValidKind(out, metaKind), kind+": a valid document is no longer valid after decode/encode")
}

func vh_C19_Info()         { vC19Check("info", "info", new(Info)) }
func vh_C19_Contact()      { vC19Check("contact", "contact", new(ContactInfo)) }
func vh_C19_License()      { vC19Check("license", "license", new(License)) }
func vh_C19_Tag()          { vC19Check("tag", "tag", new(Tag)) }
func vh_C19_ExternalDocs() { vC19Check("externalDocs", "externalDocs", new(ExternalDocumentation)) }
func vh_C19_XML()          { vC19Check("xml", "xml", new(XMLObject)) }
func vh_C19_Header()       { vC19Check("header", "header", new(Header)) }
func vh_C19_Items()        { vC19Check("items", "primitivesItems", new(Items)) }
func vh_C19_Response()     { vC19Check("response", "response", new(Response)) }
func vh_C19_Responses()    { vC19Check("responses", "responses", new(Responses)) }
func vh_C19_Parameter()    { vC19Check("parameter", "parameter", new(Parameter)) }
func vh_C19_Operation()    { vC19Check("operation", "operation", new(Operation)) }
func vh_C19_PathItem()     { vC19Check("pathItem", "pathItem", new(PathItem)) }
func vh_C19_Schema()       { vC19Check("schema", "schema", new(Schema)) }
func vh_C19_Swagger()      { vC19Check("swagger", "swagger", new(Swagger)) }
func vh_C19_SecurityScheme() {
	// the flavour decides which definition of the meta-schema applies
	o := vDocParams()
	doc := vJBytes(vBuildDoc("securityScheme", 1, "d", o))
	var s SecurityScheme
	// securityDefinitions.additionalProperties is the oneOf over the six flavours: validate a one-entry map
	wrap := func(b []byte) []byte {
		var raw json.RawMessage = b
		m := map[string]json.RawMessage{"k": raw}
		out, _ := json.Marshal(m)
		return out
	}
	vAssumeWhole(vValidKind(wrap(doc), "securityDefinitions"))
	if json.Unmarshal(doc, &s) != nil {
		return
	}
	out, err := json.Marshal(s)
	if err != nil {
		return
	}
	vAssert(vValidKind(wrap(out), "securityDefinitions"), "securityScheme: a valid document is no longer valid after decode/encode")
}
