//go:build verif

package spec

// C20 — validation accessors are lossless, clears are exact.

func vMkEnum(tag string) []interface{} {
	max := vParam("enum_max", 2)
	k := vChoose(max+2, tag+".enum_shape") // 0: nil, 1: empty non-nil, 2..: k-1 elements
	if k == 0 {
		return nil
	}
	out := make([]interface{}, 0, k-1)
	for i := 0; i < k-1; i++ {
		out = append(out, vNondetOStr(tag+".enum"))
	}
	return out
}

func vMkCommon(tag string) CommonValidations {
	return CommonValidations{
		Maximum:          vOptFloat64(tag + ".maximum"),
		ExclusiveMaximum: vNondetBool(tag + ".exclusiveMaximum"),
		Minimum:          vOptFloat64(tag + ".minimum"),
		ExclusiveMinimum: vNondetBool(tag + ".exclusiveMinimum"),
		MaxLength:        vOptInt64(tag + ".maxLength"),
		MinLength:        vOptInt64(tag + ".minLength"),
		Pattern:          vNondetOStr(tag + ".pattern"),
		MaxItems:         vOptInt64(tag + ".maxItems"),
		MinItems:         vOptInt64(tag + ".minItems"),
		UniqueItems:      vNondetBool(tag + ".uniqueItems"),
		MultipleOf:       vOptFloat64(tag + ".multipleOf"),
		Enum:             vMkEnum(tag),
	}
}

func vMkPatternProps(tag string) SchemaProperties {
	switch vChoose(3, tag+".patternProperties_shape") {
	case 0:
		return nil
	case 1:
		return SchemaProperties{}
	}
	var s Schema
	s.Description = vNondetOStr(tag + ".pp.description")
	return SchemaProperties{"^x-": s}
}

func vMkSchemaValidations(tag string) SchemaValidations {
	return SchemaValidations{
		CommonValidations: vMkCommon(tag),
		PatternProperties: vMkPatternProps(tag),
		MaxProperties:     vOptInt64(tag + ".maxProperties"),
		MinProperties:     vOptInt64(tag + ".minProperties"),
	}
}

// carriers with a few non-validation fields made symbolic, so that "everything else untouched" has content
func vMkParameter(tag string) *Parameter {
	p := &Parameter{}
	p.CommonValidations = vMkCommon(tag)
	p.Name = vNondetOStr(tag + ".name")
	p.In = vNondetOStr(tag + ".in")
	p.Required = vNondetBool(tag + ".required")
	p.Type = vNondetOStr(tag + ".type")
	p.Format = vNondetOStr(tag + ".format")
	p.Default = vNondetOStr(tag + ".default")
	return p
}
func vMkHeader(tag string) *Header {
	h := &Header{}
	h.CommonValidations = vMkCommon(tag)
	h.Description = vNondetOStr(tag + ".description")
	h.Type = vNondetOStr(tag + ".type")
	h.CollectionFormat = vNondetOStr(tag + ".collectionFormat")
	return h
}
func vMkItems(tag string) *Items {
	it := &Items{}
	it.CommonValidations = vMkCommon(tag)
	it.Type = vNondetOStr(tag + ".type")
	it.Format = vNondetOStr(tag + ".format")
	it.Example = vNondetOStr(tag + ".example")
	return it
}
func vMkSchema(tag string) *Schema {
	s := &Schema{}
	v := vMkSchemaValidations(tag)
	s.Maximum, s.ExclusiveMaximum, s.Minimum, s.ExclusiveMinimum = v.Maximum, v.ExclusiveMaximum, v.Minimum, v.ExclusiveMinimum
	s.MaxLength, s.MinLength, s.Pattern = v.MaxLength, v.MinLength, v.Pattern
	s.MaxItems, s.MinItems, s.UniqueItems, s.MultipleOf, s.Enum = v.MaxItems, v.MinItems, v.UniqueItems, v.MultipleOf, v.Enum
	s.MaxProperties, s.MinProperties, s.PatternProperties = v.MaxProperties, v.MinProperties, v.PatternProperties
	s.Description = vNondetOStr(tag + ".description")
	s.Title = vNondetOStr(tag + ".title")
	s.Format = vNondetOStr(tag + ".format")
	s.Required = []string{vNondetOStr(tag + ".required0")}
	s.ReadOnly = vNondetBool(tag + ".readOnly")
	s.Discriminator = vNondetOStr(tag + ".discriminator")
	s.Nullable = vNondetBool(tag + ".nullable")
	return s
}

// ---- (1) read and write back leaves the object unchanged ----

func vh_C20_readback_Parameter() {
	x := vMkParameter("p")
	pre := *x
	x.SetValidations(x.Validations())
	vAssert(vDeepEq(pre, *x), "Parameter: SetValidations(Validations()) changed the object")
}
func vh_C20_readback_Header() {
	x := vMkHeader("h")
	pre := *x
	x.SetValidations(x.Validations())
	vAssert(vDeepEq(pre, *x), "Header: SetValidations(Validations()) changed the object")
}
func vh_C20_readback_Items() {
	x := vMkItems("i")
	pre := *x
	x.SetValidations(x.Validations())
	vAssert(vDeepEq(pre, *x), "Items: SetValidations(Validations()) changed the object")
}
func vh_C20_readback_Schema() {
	x := vMkSchema("s")
	pre := *x
	x.SetValidations(x.Validations())
	vAssert(vDeepEq(pre, *x), "Schema: SetValidations(Validations()) changed the object")
}
func vh_C20_readback_SchemaValidations() {
	v := vMkSchemaValidations("v")
	x := &v
	pre := *x
	x.SetValidations(x.Validations())
	vAssert(vDeepEq(pre, *x), "SchemaValidations: SetValidations(Validations()) changed the object")
}

// ---- (2,3) writing a set makes exactly those validations readable back; With ≡ Set, returns receiver ----

func vh_C20_setget_Parameter() {
	x := vMkParameter("p")
	v := vMkSchemaValidations("v")
	want := *x
	want.CommonValidations = v.CommonValidations
	if vChoose(2, "via") == 0 {
		x.SetValidations(v)
	} else {
		r := x.WithValidations(v.CommonValidations)
		vAssert(r == x, "Parameter.WithValidations does not return the receiver")
	}
	got := x.Validations()
	vAssert(vDeepEq(got.CommonValidations, v.CommonValidations), "Parameter: validations read back differ from the ones written")
	vAssert(got.PatternProperties == nil && got.MinProperties == nil && got.MaxProperties == nil, "Parameter: object validations must stay unset on a simple schema")
	vAssert(vDeepEq(want, *x), "Parameter: SetValidations touched a non-validation field or missed one")
}
func vh_C20_setget_Header() {
	x := vMkHeader("h")
	v := vMkSchemaValidations("v")
	want := *x
	want.CommonValidations = v.CommonValidations
	if vChoose(2, "via") == 0 {
		x.SetValidations(v)
	} else {
		r := x.WithValidations(v.CommonValidations)
		vAssert(r == x, "Header.WithValidations does not return the receiver")
	}
	got := x.Validations()
	vAssert(vDeepEq(got.CommonValidations, v.CommonValidations), "Header: validations read back differ from the ones written")
	vAssert(vDeepEq(want, *x), "Header: SetValidations touched a non-validation field or missed one")
}
func vh_C20_setget_Items() {
	x := vMkItems("i")
	v := vMkSchemaValidations("v")
	want := *x
	want.CommonValidations = v.CommonValidations
	if vChoose(2, "via") == 0 {
		x.SetValidations(v)
	} else {
		r := x.WithValidations(v.CommonValidations)
		vAssert(r == x, "Items.WithValidations does not return the receiver")
	}
	got := x.Validations()
	vAssert(vDeepEq(got.CommonValidations, v.CommonValidations), "Items: validations read back differ from the ones written")
	vAssert(vDeepEq(want, *x), "Items: SetValidations touched a non-validation field or missed one")
}
func vh_C20_setget_Schema() {
	x := vMkSchema("s")
	v := vMkSchemaValidations("v")
	want := *x
	want.Maximum, want.ExclusiveMaximum, want.Minimum, want.ExclusiveMinimum = v.Maximum, v.ExclusiveMaximum, v.Minimum, v.ExclusiveMinimum
	want.MaxLength, want.MinLength, want.Pattern = v.MaxLength, v.MinLength, v.Pattern
	want.MaxItems, want.MinItems, want.UniqueItems, want.MultipleOf, want.Enum = v.MaxItems, v.MinItems, v.UniqueItems, v.MultipleOf, v.Enum
	want.MaxProperties, want.MinProperties, want.PatternProperties = v.MaxProperties, v.MinProperties, v.PatternProperties
	if vChoose(2, "via") == 0 {
		x.SetValidations(v)
	} else {
		r := x.WithValidations(v)
		vAssert(r == x, "Schema.WithValidations does not return the receiver")
	}
	got := x.Validations()
	vAssert(vDeepEq(got, v), "Schema: validations read back differ from the ones written")
	vAssert(vDeepEq(want, *x), "Schema: SetValidations touched a non-validation field or missed one")
}
func vh_C20_setget_SchemaValidations() {
	x0 := vMkSchemaValidations("x")
	x := &x0
	v := vMkSchemaValidations("v")
	x.SetValidations(v)
	got := x.Validations()
	vAssert(vDeepEq(got, v), "SchemaValidations: validations read back differ from the ones written")
	vAssert(vDeepEq(*x, v), "SchemaValidations: state differs from the set written")
}

// ---- (4) clears ----

type vLogEntry struct {
	K string
	V interface{}
}

func vMkCallbacks(n int, logs [][]vLogEntry) []func(string, interface{}) {
	cbs := make([]func(string, interface{}), 0, n)
	for i := 0; i < n; i++ {
		i := i
		cbs = append(cbs, func(k string, v interface{}) { logs[i] = append(logs[i], vLogEntry{k, v}) })
	}
	return cbs
}

// expected reports per family, from the pre-state (oracle: which keyword belongs to which family)
func vExpectNumber(c CommonValidations) []vLogEntry {
	var out []vLogEntry
	if c.Minimum != nil {
		out = append(out, vLogEntry{"minimum", c.Minimum})
	}
	if c.Maximum != nil {
		out = append(out, vLogEntry{"maximum", c.Maximum})
	}
	if c.ExclusiveMinimum {
		out = append(out, vLogEntry{"exclusiveMinimum", true})
	}
	if c.ExclusiveMaximum {
		out = append(out, vLogEntry{"exclusiveMaximum", true})
	}
	if c.MultipleOf != nil {
		out = append(out, vLogEntry{"multipleOf", c.MultipleOf})
	}
	return out
}
func vExpectString(c CommonValidations) []vLogEntry {
	var out []vLogEntry
	if c.Pattern != "" {
		out = append(out, vLogEntry{"pattern", c.Pattern})
	}
	if c.MinLength != nil {
		out = append(out, vLogEntry{"minLength", c.MinLength})
	}
	if c.MaxLength != nil {
		out = append(out, vLogEntry{"maxLength", c.MaxLength})
	}
	return out
}
func vExpectArray(c CommonValidations) []vLogEntry {
	var out []vLogEntry
	if c.MaxItems != nil {
		out = append(out, vLogEntry{"maxItems", c.MaxItems})
	}
	if c.MinItems != nil {
		out = append(out, vLogEntry{"minItems", c.MinItems})
	}
	if c.UniqueItems {
		out = append(out, vLogEntry{"uniqueItems", true})
	}
	return out
}
func vExpectObject(v SchemaValidations) []vLogEntry {
	var out []vLogEntry
	if v.MaxProperties != nil {
		out = append(out, vLogEntry{"maxProperties", v.MaxProperties})
	}
	if v.MinProperties != nil {
		out = append(out, vLogEntry{"minProperties", v.MinProperties})
	}
	if v.PatternProperties != nil {
		out = append(out, vLogEntry{"patternProperties", v.PatternProperties})
	}
	return out
}

// every expected (keyword, previous value) is reported exactly once, and nothing else is
func vCheckLog(log, want []vLogEntry, what string) {
	vAssert(len(log) == len(want), what+": number of reported validations differs from the number that were set")
	for _, w := range want {
		n := 0
		for _, l := range log {
			if l.K == w.K && vDeepEq(l.V, w.V) {
				n++
			}
		}
		vAssert(n == 1, what+": keyword "+w.K+" not reported exactly once with its previous value")
	}
}

func vZeroNumber(c CommonValidations) CommonValidations {
	c.Minimum, c.Maximum, c.ExclusiveMinimum, c.ExclusiveMaximum, c.MultipleOf = nil, nil, false, false, nil
	return c
}
func vZeroString(c CommonValidations) CommonValidations {
	c.Pattern, c.MinLength, c.MaxLength = "", nil, nil
	return c
}
func vZeroArray(c CommonValidations) CommonValidations {
	c.MaxItems, c.MinItems, c.UniqueItems = nil, nil, false
	return c
}

// one clear on a CommonValidations reached through carrier kind `carrier`
// fam: 0 number, 1 string, 2 array
func vClearCommon(c *CommonValidations, fam int, cbs []func(string, interface{})) {
	switch fam {
	case 0:
		c.ClearNumberValidations(cbs...)
	case 1:
		c.ClearStringValidations(cbs...)
	default:
		c.ClearArrayValidations(cbs...)
	}
}
func vExpectCommon(c CommonValidations, fam int) ([]vLogEntry, CommonValidations) {
	switch fam {
	case 0:
		return vExpectNumber(c), vZeroNumber(c)
	case 1:
		return vExpectString(c), vZeroString(c)
	}
	return vExpectArray(c), vZeroArray(c)
}
func vHasCommon(c CommonValidations, fam int) bool {
	switch fam {
	case 0:
		return c.HasNumberValidations()
	case 1:
		return c.HasStringValidations()
	}
	return c.HasArrayValidations()
}

var vFamName = []string{"number", "string", "array", "object"}

func vh_C20_clear_Parameter() {
	x := vMkParameter("p")
	fam := vChoose(3, "family")
	k := vChoose(vParam("cb_max", 2)+1, "callbacks")
	logs := make([][]vLogEntry, k)
	pre := *x
	wantLog, wantCV := vExpectCommon(pre.CommonValidations, fam)
	switch fam { // through the promoted methods of the carrier
	case 0:
		x.ClearNumberValidations(vMkCallbacks(k, logs)...)
	case 1:
		x.ClearStringValidations(vMkCallbacks(k, logs)...)
	default:
		x.ClearArrayValidations(vMkCallbacks(k, logs)...)
	}
	want := pre
	want.CommonValidations = wantCV
	vAssert(vDeepEq(want, *x), "Parameter clear "+vFamName[fam]+": post-state is not 'exactly that family zeroed'")
	vAssert(!vHasCommon(x.CommonValidations, fam), "Parameter clear "+vFamName[fam]+": has-query still true")
	for i := 0; i < k; i++ {
		vCheckLog(logs[i], wantLog, "Parameter clear "+vFamName[fam])
	}
}
func vh_C20_clear_Header() {
	x := vMkHeader("h")
	fam := vChoose(3, "family")
	k := vChoose(vParam("cb_max", 2)+1, "callbacks")
	logs := make([][]vLogEntry, k)
	pre := *x
	wantLog, wantCV := vExpectCommon(pre.CommonValidations, fam)
	switch fam {
	case 0:
		x.ClearNumberValidations(vMkCallbacks(k, logs)...)
	case 1:
		x.ClearStringValidations(vMkCallbacks(k, logs)...)
	default:
		x.ClearArrayValidations(vMkCallbacks(k, logs)...)
	}
	want := pre
	want.CommonValidations = wantCV
	vAssert(vDeepEq(want, *x), "Header clear "+vFamName[fam]+": post-state is not 'exactly that family zeroed'")
	vAssert(!vHasCommon(x.CommonValidations, fam), "Header clear "+vFamName[fam]+": has-query still true")
	for i := 0; i < k; i++ {
		vCheckLog(logs[i], wantLog, "Header clear "+vFamName[fam])
	}
}
func vh_C20_clear_Items() {
	x := vMkItems("i")
	fam := vChoose(3, "family")
	k := vChoose(vParam("cb_max", 2)+1, "callbacks")
	logs := make([][]vLogEntry, k)
	pre := *x
	wantLog, wantCV := vExpectCommon(pre.CommonValidations, fam)
	switch fam {
	case 0:
		x.ClearNumberValidations(vMkCallbacks(k, logs)...)
	case 1:
		x.ClearStringValidations(vMkCallbacks(k, logs)...)
	default:
		x.ClearArrayValidations(vMkCallbacks(k, logs)...)
	}
	want := pre
	want.CommonValidations = wantCV
	vAssert(vDeepEq(want, *x), "Items clear "+vFamName[fam]+": post-state is not 'exactly that family zeroed'")
	vAssert(!vHasCommon(x.CommonValidations, fam), "Items clear "+vFamName[fam]+": has-query still true")
	for i := 0; i < k; i++ {
		vCheckLog(logs[i], wantLog, "Items clear "+vFamName[fam])
	}
}

func vClearSV(x *SchemaValidations, fam int, cbs []func(string, interface{})) {
	switch fam {
	case 0:
		x.ClearNumberValidations(cbs...)
	case 1:
		x.ClearStringValidations(cbs...)
	case 2:
		x.ClearArrayValidations(cbs...)
	default:
		x.ClearObjectValidations(cbs...)
	}
}
func vExpectSV(v SchemaValidations, fam int) ([]vLogEntry, SchemaValidations) {
	if fam < 3 {
		l, c := vExpectCommon(v.CommonValidations, fam)
		v.CommonValidations = c
		return l, v
	}
	l := vExpectObject(v)
	v.MaxProperties, v.MinProperties, v.PatternProperties = nil, nil, nil
	return l, v
}
func vHasSV(v SchemaValidations, fam int) bool {
	if fam < 3 {
		return vHasCommon(v.CommonValidations, fam)
	}
	return v.HasObjectValidations()
}

func vh_C20_clear_SchemaValidations() {
	x0 := vMkSchemaValidations("v")
	x := &x0
	fam := vChoose(4, "family")
	k := vChoose(vParam("cb_max", 2)+1, "callbacks")
	logs := make([][]vLogEntry, k)
	pre := *x
	wantLog, want := vExpectSV(pre, fam)
	vClearSV(x, fam, vMkCallbacks(k, logs))
	vAssert(vDeepEq(want, *x), "SchemaValidations clear "+vFamName[fam]+": post-state is not 'exactly that family zeroed'")
	vAssert(!vHasSV(*x, fam), "SchemaValidations clear "+vFamName[fam]+": has-query still true")
	for i := 0; i < k; i++ {
		vCheckLog(logs[i], wantLog, "SchemaValidations clear "+vFamName[fam])
	}
}

// ---- (5) any two clears commute (hence all orders agree) ----

func vh_C20_commute() {
	a0 := vMkSchemaValidations("v")
	b0 := a0
	a, b := &a0, &b0
	f := vChoose(4, "first")
	g := vChoose(4, "second")
	la, lb := make([][]vLogEntry, 2), make([][]vLogEntry, 2)
	vClearSV(a, f, []func(string, interface{}){func(k string, v interface{}) { la[0] = append(la[0], vLogEntry{k, v}) }})
	vClearSV(a, g, []func(string, interface{}){func(k string, v interface{}) { la[1] = append(la[1], vLogEntry{k, v}) }})
	vClearSV(b, g, []func(string, interface{}){func(k string, v interface{}) { lb[1] = append(lb[1], vLogEntry{k, v}) }})
	vClearSV(b, f, []func(string, interface{}){func(k string, v interface{}) { lb[0] = append(lb[0], vLogEntry{k, v}) }})
	vAssert(vDeepEq(*a, *b), "clears do not commute: final states differ")
	if f != g {
		vCheckLog(la[0], lb[0], "commute: reports of "+vFamName[f])
		vCheckLog(la[1], lb[1], "commute: reports of "+vFamName[g])
	}
}
