//go:build verif && !verifnative

package spec

// Intrinsics intercepted by the symbolic executor (gosym). Natively they panic: harness
// functions are only ever run under the executor; replays use concrete values instead.

func vNondetBool(name string) bool            { panic("gosym intrinsic") }
func vNondetInt64(name string) int64          { panic("gosym intrinsic") }
func vNondetInt(name string) int              { panic("gosym intrinsic") }
func vNondetFloat64(name string) float64      { panic("gosym intrinsic") }
func vNondetByte(name string) byte            { panic("gosym intrinsic") }
func vNondetOStr(name string) string          { panic("gosym intrinsic") } // opaque string: only ==, != are supported
func vNondetStr(name string, n int) string    { panic("gosym intrinsic") } // n symbolic bytes
func vAssume(c bool)                          { panic("gosym intrinsic") }
func vAssert(c bool, msg string)              { panic("gosym intrinsic") }
func vChoose(n int, name string) int          { panic("gosym intrinsic") } // explicit fork over 0..n-1
func vNote(msg string)                        { panic("gosym intrinsic") }
func vParam(name string, def int) int         { panic("gosym intrinsic") } // bound supplied by the check tier
func vOptFloat64(name string) *float64        { panic("gosym intrinsic") } // nil or pointer to a symbolic value (guarded, no fork)
func vOptInt64(name string) *int64            { panic("gosym intrinsic") }
func vDeepEq(a, b interface{}) bool           { panic("gosym intrinsic") } // reflect.DeepEqual as a solver term

func vInSet(b byte, set string) bool { panic("gosym intrinsic") } // b is one of the bytes of set (one term, no fork)

// oracles on JSON texts
func vJSONEq(a, b []byte) bool      { panic("gosym intrinsic") } // equal as JSON values (member order irrelevant)
func vJSONBytesEq(a, b []byte) bool { panic("gosym intrinsic") } // byte-identical encoder output
func vJSONNoDup(a []byte) bool      { panic("gosym intrinsic") } // no object repeats a member name
func vJSONValid(a []byte) bool      { panic("gosym intrinsic") }

func vGetwd() string { panic("gosym intrinsic") } // the working directory (model: /cwd/w; native: os.Getwd)

// JSON document construction (symbolic presence without forking)
type vJNode struct{}

func vJObj() vJ                                  { panic("gosym intrinsic") }
func vJAdd(o vJ, present bool, name string, v vJ) { panic("gosym intrinsic") } // member present iff `present`
func vJArr(elems []vJ) vJ                        { panic("gosym intrinsic") }
func vJStr(s string) vJ                          { panic("gosym intrinsic") }
func vJBool(b bool) vJ                           { panic("gosym intrinsic") }
func vJNull() vJ                                 { panic("gosym intrinsic") }
func vJInt(i int64) vJ                           { panic("gosym intrinsic") }
func vJFloat(f float64) vJ                       { panic("gosym intrinsic") }
func vJBytes(v vJ) []byte                        { panic("gosym intrinsic") }
func vFinite(f float64) bool                     { panic("gosym intrinsic") }

// vAssertJSONEq asserts, member by member, that two JSON texts denote the same value
func vAssertJSONEq(a, b []byte, what string) { panic("gosym intrinsic") }

// vBound: a harness bound that must suffice (unwinding assertion); a failure is INCONCLUSIVE, never a violation
func vBound(ok bool, msg string) { panic("gosym intrinsic") }

func vJSONMember(b []byte, name string) ([]byte, bool) { panic("gosym intrinsic") } // member of a top-level object
func vJSONKeys(b []byte) []string                      { panic("gosym intrinsic") } // member names in output order
func vMapOrder(symbolic bool)                          { panic("gosym intrinsic") } // every map iteration order is explored while on

func vChdir(dir string)        { panic("gosym intrinsic") } // change the (modelled) working directory
func vTwoDirs() (string, string) { panic("gosym intrinsic") } // two distinct existing directories

func vUseRealMetaSchemas() { panic("gosym intrinsic") } // decode the embedded meta-schemas for real on this path (default: placeholders)

func vAssumeWhole(c bool)                    { panic("gosym intrinsic") } // assumption kept as one solver conjunct
func vValidKind(doc []byte, kind string) bool { panic("gosym intrinsic") } // validates against #/definitions/<kind> of schemas/v2/schema.json ("swagger": the root)

// concurrency check (C17)
func vShare(v interface{}, name string) { panic("gosym intrinsic") } // everything reachable from v is shared between threads
func vTraceBegin()                      { panic("gosym intrinsic") }
func vTraceEnd(name string)             { panic("gosym intrinsic") }

func vJDump(doc []byte, label string) { panic("gosym intrinsic") } // debugging: note with the abstract JSON value
