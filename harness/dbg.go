//go:build verif

package spec

import "net/url"

func vh_DBG_escape() {
	s := vNondetStr("s", 3)
	vAssume(s[1] == '/')
	u := &url.URL{Path: s}
	_ = u.EscapedPath()
}
