//go:build verif

package spec

// vJ: a JSON value under construction by a harness (symbolic under gosym, concrete natively).
type vJ struct{ n *vJNode }
