//go:build verif

package spec

// Go reference bodies for the two regular expressions of jsonreference/internal (M-regexp).
// They are executed symbolically in place of regexp.ReplaceAllString(Func); the native
// calibration test compares them with the real regexp package.

// rxDupSlashes = `/{2,}` replaced by "/"
func vrefRxDupSlashes(s string) string {
	out := make([]byte, 0, len(s))
	for i := 0; i < len(s); i++ {
		if s[i] == '/' && i > 0 && s[i-1] == '/' {
			continue
		}
		out = append(out, s[i])
	}
	return string(out)
}

// rxPort = `(:\d+)/?$`, ReplaceAllStringFunc(s, f)
func vrefRxPort(s string, f func(string) string) string {
	for i := 0; i < len(s); i++ {
		if s[i] != ':' {
			continue
		}
		j := i + 1
		for j < len(s) && s[j] >= '0' && s[j] <= '9' {
			j++
		}
		if j == i+1 {
			continue
		}
		k := j
		if k < len(s) && s[k] == '/' {
			k++
		}
		if k == len(s) {
			return s[:i] + f(s[i:])
		}
	}
	return s
}

// vrefJSONStringBody decodes the body of a JSON string literal (the bytes between the quotes)
// as encoding/json would. status 0: ok; 1: the literal is invalid (control character, bad
// escape, invalid UTF-8 is replaced not rejected); 2: an unescaped quote ends the literal early.
func vrefJSONStringBody(s string) (string, int) {
	out := make([]byte, 0, len(s))
	for i := 0; i < len(s); i++ {
		c := s[i]
		switch {
		case c == '"':
			return "", 2
		case c < 0x20:
			return "", 1
		case c == '\\':
			i++
			if i >= len(s) {
				return "", 2 // the backslash escapes the closing quote: literal runs on
			}
			switch s[i] {
			case '"', '\\', '/':
				out = append(out, s[i])
			case 'b':
				out = append(out, '\b')
			case 'f':
				out = append(out, '\f')
			case 'n':
				out = append(out, '\n')
			case 'r':
				out = append(out, '\r')
			case 't':
				out = append(out, '\t')
			case 'u':
				if i+4 >= len(s) {
					return "", 1
				}
				r := 0
				for k := 1; k <= 4; k++ {
					h := s[i+k]
					switch {
					case h >= '0' && h <= '9':
						r = r*16 + int(h-'0')
					case h >= 'a' && h <= 'f':
						r = r*16 + int(h-'a') + 10
					case h >= 'A' && h <= 'F':
						r = r*16 + int(h-'A') + 10
					default:
						return "", 1
					}
				}
				i += 4
				out = append(out, string(rune(r))...) // surrogate pairs are outside the bound (needs 12 bytes)
			default:
				return "", 1
			}
		default:
			out = append(out, c)
		}
	}
	return string(out), 0
}
