//go:build verif && verifnative

package spec

// Native implementations of the harness intrinsics: the same harness functions that the
// symbolic executor runs are executed against the real build, reading every nondeterministic
// choice from a witness (a solver model). Used to replay counterexamples and to validate the
// executor's reachability witnesses against the real code.

import (
	"bytes"
	"encoding/json"
	"fmt"
	"math"
	"os"
	"os/exec"
	"reflect"
	"strings"
	"sync"
)

type vWitness struct {
	Harness string            `json:"harness"`
	Kind    string            `json:"kind"`
	Msg     string            `json:"msg"`
	Inputs  map[string]uint64 `json:"inputs"`
	Lits    map[string]string `json:"lits"`
	Params  map[string]int    `json:"params"`
}

var (
	vW        *vWitness
	vCtr      map[string]int
	vFailures []string
	vNotes    []string
)

type vAssumeFailed struct{}

func vReset(w *vWitness) {
	vW = w
	vCtr = map[string]int{}
	vFailures = nil
	vNotes = nil
}

func vSanitize(s string) string {
	var sb strings.Builder
	for _, r := range s {
		if r >= 'a' && r <= 'z' || r >= 'A' && r <= 'Z' || r >= '0' && r <= '9' || r == '_' || r == '!' || r == '.' {
			sb.WriteRune(r)
		} else {
			sb.WriteByte('_')
		}
	}
	return "v_" + sb.String()
}

func vName(n string) string {
	k := vCtr[n]
	vCtr[n] = k + 1
	if k > 0 {
		n = fmt.Sprintf("%s!%d", n, k)
	}
	return vSanitize(n)
}

func vGet(n string) uint64 { return vW.Inputs[vName(n)] }

func vNondetBool(name string) bool       { return vGet(name) != 0 }
func vNondetInt64(name string) int64     { return int64(vGet(name)) }
func vNondetInt(name string) int         { return int(int64(vGet(name))) }
func vNondetFloat64(name string) float64 { return math.Float64frombits(vGet(name)) }
func vNondetByte(name string) byte       { return byte(vGet(name)) }
func vNondetOStr(name string) string {
	id := vGet(name + ".ostr")
	if s, ok := vW.Lits[fmt.Sprint(id)]; ok {
		return s
	}
	return fmt.Sprintf("§%d", id)
}
func vNondetStr(name string, n int) string {
	b := make([]byte, n)
	for i := range b {
		b[i] = byte(vGet(fmt.Sprintf("%s.b%d", name, i)))
	}
	return string(b)
}
func vAssume(c bool) {
	if !c {
		panic(vAssumeFailed{})
	}
}
func vAssert(c bool, msg string) {
	if !c {
		vFailures = append(vFailures, msg)
	}
}
func vChoose(n int, name string) int  { return int(vGet(name)) }
func vNote(msg string)                { vNotes = append(vNotes, msg) }
func vJDump(doc []byte, label string) { vNotes = append(vNotes, label+"="+string(doc)) }
func vParam(name string, def int) int {
	if v, ok := vW.Params[name]; ok {
		return v
	}
	return def
}
func vOptFloat64(name string) *float64 {
	set := vGet(name + ".set")
	val := vGet(name + ".val")
	if set == 0 {
		return nil
	}
	f := math.Float64frombits(val)
	return &f
}
func vOptInt64(name string) *int64 {
	set := vGet(name + ".set")
	val := vGet(name + ".val")
	if set == 0 {
		return nil
	}
	i := int64(val)
	return &i
}

// vDeepEq: reflect.DeepEqual, except that floats are compared by bit pattern (as the executor does)
func vDeepEq(a, b interface{}) bool {
	return vDeepValueEq(reflect.ValueOf(a), reflect.ValueOf(b), map[[2]uintptr]bool{})
}

func vDeepValueEq(a, b reflect.Value, seen map[[2]uintptr]bool) bool {
	if !a.IsValid() || !b.IsValid() {
		return a.IsValid() == b.IsValid()
	}
	if a.Type() != b.Type() {
		return false
	}
	switch a.Kind() {
	case reflect.Float32, reflect.Float64:
		return math.Float64bits(a.Float()) == math.Float64bits(b.Float())
	case reflect.Ptr:
		if a.IsNil() || b.IsNil() {
			return a.IsNil() == b.IsNil()
		}
		if a.Pointer() == b.Pointer() {
			return true
		}
		k := [2]uintptr{a.Pointer(), b.Pointer()}
		if seen[k] {
			return true
		}
		seen[k] = true
		return vDeepValueEq(a.Elem(), b.Elem(), seen)
	case reflect.Interface:
		if a.IsNil() || b.IsNil() {
			return a.IsNil() == b.IsNil()
		}
		return vDeepValueEq(a.Elem(), b.Elem(), seen)
	case reflect.Struct:
		for i := 0; i < a.NumField(); i++ {
			if !vDeepValueEq(a.Field(i), b.Field(i), seen) {
				return false
			}
		}
		return true
	case reflect.Slice:
		if a.IsNil() != b.IsNil() || a.Len() != b.Len() {
			return false
		}
		for i := 0; i < a.Len(); i++ {
			if !vDeepValueEq(a.Index(i), b.Index(i), seen) {
				return false
			}
		}
		return true
	case reflect.Array:
		for i := 0; i < a.Len(); i++ {
			if !vDeepValueEq(a.Index(i), b.Index(i), seen) {
				return false
			}
		}
		return true
	case reflect.Map:
		if a.IsNil() != b.IsNil() || a.Len() != b.Len() {
			return false
		}
		if a.Pointer() == b.Pointer() {
			return true
		}
		for _, k := range a.MapKeys() {
			bv := b.MapIndex(k)
			if !bv.IsValid() || !vDeepValueEq(a.MapIndex(k), bv, seen) {
				return false
			}
		}
		return true
	case reflect.Func:
		return a.IsNil() && b.IsNil()
	default:
		return reflect.DeepEqual(a.Interface(), b.Interface())
	}
}

func vJSONEq(a, b []byte) bool {
	var x, y interface{}
	if json.Unmarshal(a, &x) != nil || json.Unmarshal(b, &y) != nil {
		return false
	}
	return reflect.DeepEqual(x, y)
}
func vJSONBytesEq(a, b []byte) bool { return bytes.Equal(a, b) }
func vJSONValid(a []byte) bool      { return json.Valid(a) }
func vJSONNoDup(a []byte) bool {
	dec := json.NewDecoder(bytes.NewReader(a))
	var walk func() bool
	walk = func() bool {
		tok, err := dec.Token()
		if err != nil {
			return true
		}
		d, ok := tok.(json.Delim)
		if !ok {
			return true
		}
		switch d {
		case '{':
			seen := map[string]bool{}
			for dec.More() {
				kt, _ := dec.Token()
				k, _ := kt.(string)
				if seen[k] {
					return false
				}
				seen[k] = true
				if !walk() {
					return false
				}
			}
			dec.Token()
		case '[':
			for dec.More() {
				if !walk() {
					return false
				}
			}
			dec.Token()
		}
		return true
	}
	return walk()
}

func vInSet(b byte, set string) bool { return strings.IndexByte(set, b) >= 0 }

func vGetwd() string { d, _ := os.Getwd(); return d }

// ---- concrete JSON documents ----
type vJNode struct {
	kind byte // o a s b n i f
	keys []string
	vals []vJ
	s    string
	b    bool
	i    int64
	f    float64
}

func vJObj() vJ { return vJ{&vJNode{kind: 'o'}} }
func vJAdd(o vJ, present bool, name string, v vJ) {
	if present {
		o.n.keys = append(o.n.keys, name)
		o.n.vals = append(o.n.vals, v)
	}
}
func vJArr(elems []vJ) vJ    { return vJ{&vJNode{kind: 'a', vals: append([]vJ(nil), elems...)}} }
func vJStr(s string) vJ      { return vJ{&vJNode{kind: 's', s: s}} }
func vJBool(b bool) vJ       { return vJ{&vJNode{kind: 'b', b: b}} }
func vJNull() vJ             { return vJ{&vJNode{kind: 'n'}} }
func vJInt(i int64) vJ       { return vJ{&vJNode{kind: 'i', i: i}} }
func vJFloat(f float64) vJ   { return vJ{&vJNode{kind: 'f', f: f}} }
func vFinite(f float64) bool { return !math.IsNaN(f) && !math.IsInf(f, 0) }
func vJBytes(v vJ) []byte {
	var buf bytes.Buffer
	vJWrite(&buf, v)
	return buf.Bytes()
}
func vJWrite(buf *bytes.Buffer, v vJ) {
	switch v.n.kind {
	case 'o':
		buf.WriteByte('{')
		for i, k := range v.n.keys {
			if i > 0 {
				buf.WriteByte(',')
			}
			kb, _ := json.Marshal(k)
			buf.Write(kb)
			buf.WriteByte(':')
			vJWrite(buf, v.n.vals[i])
		}
		buf.WriteByte('}')
	case 'a':
		buf.WriteByte('[')
		for i, e := range v.n.vals {
			if i > 0 {
				buf.WriteByte(',')
			}
			vJWrite(buf, e)
		}
		buf.WriteByte(']')
	case 's':
		b, _ := json.Marshal(v.n.s)
		buf.Write(b)
	case 'b':
		if v.n.b {
			buf.WriteString("true")
		} else {
			buf.WriteString("false")
		}
	case 'n':
		buf.WriteString("null")
	case 'i':
		buf.WriteString(fmt.Sprint(v.n.i))
	case 'f':
		b, _ := json.Marshal(v.n.f)
		buf.Write(b)
	}
}

func vAssertJSONEq(a, b []byte, what string) {
	var x, y map[string]json.RawMessage
	if json.Unmarshal(a, &x) != nil || json.Unmarshal(b, &y) != nil {
		if !vJSONEq(a, b) {
			vFailures = append(vFailures, what+": values differ")
		}
		return
	}
	for k, v := range x {
		w, ok := y[k]
		if !ok || !vJSONEq(v, w) {
			vFailures = append(vFailures, what+": member "+k+" lost or changed")
		}
	}
	for k, v := range y {
		w, ok := x[k]
		if !ok || !vJSONEq(v, w) {
			vFailures = append(vFailures, what+": member "+k+" appears only in the output or with another value")
		}
	}
}

func vBound(ok bool, msg string) {}

func vJSONMember(b []byte, name string) ([]byte, bool) {
	dec := json.NewDecoder(bytes.NewReader(b))
	tok, err := dec.Token()
	if d, ok := tok.(json.Delim); err != nil || !ok || d != '{' {
		return nil, false
	}
	var val []byte
	found := false
	for dec.More() {
		kt, err := dec.Token()
		if err != nil {
			return nil, false
		}
		var raw json.RawMessage
		if err := dec.Decode(&raw); err != nil {
			return nil, false
		}
		if k, _ := kt.(string); k == name {
			val, found = raw, true
		}
	}
	return val, found
}
func vJSONKeys(b []byte) []string {
	dec := json.NewDecoder(bytes.NewReader(b))
	tok, err := dec.Token()
	if d, ok := tok.(json.Delim); err != nil || !ok || d != '{' {
		return nil
	}
	var keys []string
	for dec.More() {
		kt, err := dec.Token()
		if err != nil {
			return keys
		}
		var raw json.RawMessage
		if err := dec.Decode(&raw); err != nil {
			return keys
		}
		k, _ := kt.(string)
		keys = append(keys, k)
	}
	return keys
}
func vMapOrder(symbolic bool) {}

func vChdir(dir string) { os.Chdir(dir) }
func vTwoDirs() (string, string) {
	d, _ := os.Getwd()
	return d, os.TempDir()
}

func vUseRealMetaSchemas() {}

func vAssumeWhole(c bool) { vAssume(c) }

// vValidKind: the independent judge - python jsonschema's Draft4Validator on the shipped meta-schema
func vValidKind(doc []byte, kind string) bool {
	f, err := os.CreateTemp("", "verif-doc-*.json")
	if err != nil {
		panic(err)
	}
	defer os.Remove(f.Name())
	f.Write(doc)
	f.Close()
	script := os.Getenv("VERIF_VALIDATE_PY")
	cmd := exec.Command("/opt/veriftools/pyvenv/bin/python", script, f.Name(), kind)
	out, err := cmd.CombinedOutput()
	res := strings.TrimSpace(string(out))
	if strings.HasSuffix(res, "VALID-YES") {
		return true
	}
	if strings.HasSuffix(res, "VALID-NO") {
		return false
	}
	panic("validator failed: " + res + " " + fmt.Sprint(err))
}

// ---- concurrency (C17): natively the shared values really are shared ----
const vC17DocText = `{"swagger":"2.0","info":{"title":"t","version":"1"},"paths":{},"definitions":{"A":{"description":"a","properties":{"x":{"type":"string","x-e":1,"const":1}}}}}`

var (
	vSharedOnce   sync.Once
	vSharedDocV   *Swagger
	vSharedCacheV ResolutionCache
	vSharedOptsV  *ExpandOptions
)

func vSharedInit() {
	vSharedOnce.Do(func() {
		vSharedDocV = new(Swagger)
		_ = json.Unmarshal([]byte(vC17DocText), vSharedDocV)
		vSharedCacheV = defaultResolutionCache()
		vSharedOptsV = &ExpandOptions{}
	})
}
var (
	vSharedWarmOnce  sync.Once
	vSharedRootV     *Swagger
	vSharedWarmCache ResolutionCache
)

func vSharedRootAndCache() (*Swagger, ResolutionCache) {
	vSharedWarmOnce.Do(func() {
		vSharedRootV = new(Swagger)
		_ = json.Unmarshal([]byte(vC17RootDoc), vSharedRootV)
		vSharedWarmCache = defaultResolutionCache()
		var s Schema
		_ = json.Unmarshal([]byte(`{"$ref":"#/definitions/B"}`), &s)
		_ = ExpandSchema(&s, vSharedRootV, vSharedWarmCache)
	})
	return vSharedRootV, vSharedWarmCache
}
func vSharedDoc() *Swagger              { vSharedInit(); return vSharedDocV }
func vSharedCache() ResolutionCache     { vSharedInit(); return vSharedCacheV }
func vSharedOpts() *ExpandOptions       { vSharedInit(); return vSharedOptsV }
func vShare(v interface{}, name string) {}
func vTraceBegin()                      {}
func vTraceEnd(name string)             {}
