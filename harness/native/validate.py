import json, sys
import jsonschema
repo = "/repo"
sw = json.load(open(repo + "/schemas/v2/schema.json"))
d4 = json.load(open(repo + "/schemas/jsonschema-draft-04.json"))
doc = json.load(open(sys.argv[1]))
kind = sys.argv[2]
store = {"http://json-schema.org/draft-04/schema": d4, "http://swagger.io/v2/schema.json": sw}
schema = sw if kind in ("", "swagger") else {"$ref": "http://swagger.io/v2/schema.json#/definitions/" + kind}
resolver = jsonschema.RefResolver(base_uri="http://swagger.io/v2/schema.json", referrer=sw, store=store)
v = jsonschema.Draft4Validator(schema, resolver=resolver)
errs = list(v.iter_errors(doc))
print("VALID-YES" if not errs else "VALID-NO")
