//go:build verif

package spec

// Symbolic documents over the Swagger 2.0 / JSON-Schema draft-4 vocabulary. The keyword tables
// below are transcribed from schemas/v2/schema.json and schemas/jsonschema-draft-04.json; at check
// time gosym compares them with the shipped meta-schemas (a keyword missing here is reported).
//
// Presence of every optional member is a solver variable (no forking); values are symbolic
// leaves; nested object kinds are built recursively down to `depth`, below which a child is the
// minimal document of its kind.

type vShape int

const (
	shS      vShape = iota // free string (opaque)
	shB                    // boolean
	shN                    // number
	shI                    // integer
	shSA                   // array of strings
	shAny                  // free-form payload
	shAnyArr               // array of free-form payloads (enum)
	shEnum                 // one of Enum
	shEnumA                // array of Enum values
	shConst                // the constant Enum[0]
	shRef                  // a $ref string
	shChild                // object of kind Kind
	shChildA               // array of objects of kind Kind
	shChildM               // map name -> object of kind Kind
	shItems                // schema or array of schemas
	shSchOrB               // schema or boolean
	shDeps                 // map name -> schema | string array
	shSec                  // security requirements
	shScopes               // map name -> string
	shExamples             // map mime -> any
	shParams               // array of parameter | reference
	shSchemaURL            // $schema
)

type vKW struct {
	Name  string
	Shape vShape
	Kind  string
	Req   bool
	Enum  []string
}

var vValidations = []vKW{
	{Name: "maximum", Shape: shN}, {Name: "exclusiveMaximum", Shape: shB}, {Name: "minimum", Shape: shN}, {Name: "exclusiveMinimum", Shape: shB},
	{Name: "maxLength", Shape: shI}, {Name: "minLength", Shape: shI}, {Name: "pattern", Shape: shS}, {Name: "maxItems", Shape: shI}, {Name: "minItems", Shape: shI},
	{Name: "uniqueItems", Shape: shB}, {Name: "enum", Shape: shAnyArr}, {Name: "multipleOf", Shape: shN},
}

func vSimple(extra ...vKW) []vKW {
	out := append([]vKW{}, extra...)
	out = append(out, vKW{Name: "format", Shape: shS}, vKW{Name: "items", Shape: shChild, Kind: "items"},
		vKW{Name: "collectionFormat", Shape: shEnum, Enum: []string{"csv", "ssv", "tsv", "pipes"}}, vKW{Name: "default", Shape: shAny})
	return append(out, vValidations...)
}

var vTypeEnum = []string{"string", "number", "integer", "boolean", "array"}

var vVocab = map[string][]vKW{
	"info": {{Name: "title", Shape: shS, Req: true}, {Name: "version", Shape: shS, Req: true}, {Name: "description", Shape: shS}, {Name: "termsOfService", Shape: shS},
		{Name: "contact", Shape: shChild, Kind: "contact"}, {Name: "license", Shape: shChild, Kind: "license"}},
	"contact":      {{Name: "name", Shape: shS}, {Name: "url", Shape: shS}, {Name: "email", Shape: shS}},
	"license":      {{Name: "name", Shape: shS, Req: true}, {Name: "url", Shape: shS}},
	"externalDocs": {{Name: "description", Shape: shS}, {Name: "url", Shape: shS, Req: true}},
	"tag":          {{Name: "name", Shape: shS, Req: true}, {Name: "description", Shape: shS}, {Name: "externalDocs", Shape: shChild, Kind: "externalDocs"}},
	"xml":          {{Name: "name", Shape: shS}, {Name: "namespace", Shape: shS}, {Name: "prefix", Shape: shS}, {Name: "attribute", Shape: shB}, {Name: "wrapped", Shape: shB}},
	"items":        vSimple(vKW{Name: "type", Shape: shEnum, Enum: vTypeEnum}),
	"header":       vSimple(vKW{Name: "type", Shape: shEnum, Enum: vTypeEnum, Req: true}, vKW{Name: "description", Shape: shS}),
	"response": {{Name: "description", Shape: shS, Req: true}, {Name: "schema", Shape: shChild, Kind: "schema"}, {Name: "headers", Shape: shChildM, Kind: "header"},
		{Name: "examples", Shape: shExamples}},
	"operation": {{Name: "tags", Shape: shSA}, {Name: "summary", Shape: shS}, {Name: "description", Shape: shS}, {Name: "externalDocs", Shape: shChild, Kind: "externalDocs"},
		{Name: "operationId", Shape: shS}, {Name: "produces", Shape: shSA}, {Name: "consumes", Shape: shSA}, {Name: "parameters", Shape: shParams},
		{Name: "responses", Shape: shChild, Kind: "responses", Req: true}, {Name: "schemes", Shape: shEnumA, Enum: []string{"http", "https", "ws", "wss"}},
		{Name: "deprecated", Shape: shB}, {Name: "security", Shape: shSec}},
	"pathItem": {{Name: "$ref", Shape: shRef}, {Name: "get", Shape: shChild, Kind: "operation"}, {Name: "put", Shape: shChild, Kind: "operation"}, {Name: "post", Shape: shChild, Kind: "operation"},
		{Name: "delete", Shape: shChild, Kind: "operation"}, {Name: "options", Shape: shChild, Kind: "operation"}, {Name: "head", Shape: shChild, Kind: "operation"},
		{Name: "patch", Shape: shChild, Kind: "operation"}, {Name: "parameters", Shape: shParams}},
	"schema": {{Name: "$ref", Shape: shRef}, {Name: "format", Shape: shS}, {Name: "title", Shape: shS}, {Name: "description", Shape: shS}, {Name: "default", Shape: shAny},
		{Name: "multipleOf", Shape: shN}, {Name: "maximum", Shape: shN}, {Name: "exclusiveMaximum", Shape: shB}, {Name: "minimum", Shape: shN}, {Name: "exclusiveMinimum", Shape: shB},
		{Name: "maxLength", Shape: shI}, {Name: "minLength", Shape: shI}, {Name: "pattern", Shape: shS}, {Name: "maxItems", Shape: shI}, {Name: "minItems", Shape: shI},
		{Name: "uniqueItems", Shape: shB}, {Name: "maxProperties", Shape: shI}, {Name: "minProperties", Shape: shI}, {Name: "required", Shape: shSA}, {Name: "enum", Shape: shAnyArr},
		{Name: "additionalProperties", Shape: shSchOrB}, {Name: "type", Shape: shS}, {Name: "items", Shape: shItems}, {Name: "allOf", Shape: shChildA, Kind: "schema"},
		{Name: "properties", Shape: shChildM, Kind: "schema"}, {Name: "discriminator", Shape: shS}, {Name: "readOnly", Shape: shB}, {Name: "xml", Shape: shChild, Kind: "xml"},
		{Name: "externalDocs", Shape: shChild, Kind: "externalDocs"}, {Name: "example", Shape: shAny},
		// JSON-Schema draft-4 keywords outside the Swagger subset
		{Name: "id", Shape: shS}, {Name: "$schema", Shape: shSchemaURL}, {Name: "additionalItems", Shape: shSchOrB}, {Name: "definitions", Shape: shChildM, Kind: "schema"},
		{Name: "patternProperties", Shape: shChildM, Kind: "schema"}, {Name: "dependencies", Shape: shDeps}, {Name: "anyOf", Shape: shChildA, Kind: "schema"},
		{Name: "oneOf", Shape: shChildA, Kind: "schema"}, {Name: "not", Shape: shChild, Kind: "schema"}},
	"swagger": {{Name: "swagger", Shape: shConst, Enum: []string{"2.0"}, Req: true}, {Name: "info", Shape: shChild, Kind: "info", Req: true}, {Name: "host", Shape: shS}, {Name: "basePath", Shape: shS},
		{Name: "schemes", Shape: shEnumA, Enum: []string{"http", "https", "ws", "wss"}}, {Name: "consumes", Shape: shSA}, {Name: "produces", Shape: shSA},
		{Name: "paths", Shape: shChild, Kind: "paths", Req: true}, {Name: "definitions", Shape: shChildM, Kind: "schema"}, {Name: "parameters", Shape: shChildM, Kind: "parameter"},
		{Name: "responses", Shape: shChildM, Kind: "response"}, {Name: "security", Shape: shSec}, {Name: "securityDefinitions", Shape: shChildM, Kind: "securityScheme"},
		{Name: "tags", Shape: shChildA, Kind: "tag"}, {Name: "externalDocs", Shape: shChild, Kind: "externalDocs"}},
}

// parameter flavours (the oneOf of the meta-schema), chosen by a selector
func vParamVocab(flavour int) []vKW {
	in := []string{"body", "header", "query", "formData", "path"}[flavour]
	base := []vKW{{Name: "name", Shape: shS, Req: true}, {Name: "in", Shape: shConst, Enum: []string{in}, Req: true}, {Name: "description", Shape: shS}}
	if flavour == 0 {
		return append(base, vKW{Name: "required", Shape: shB}, vKW{Name: "schema", Shape: shChild, Kind: "schema", Req: true})
	}
	req := vKW{Name: "required", Shape: shB}
	if flavour == 4 {
		req.Req = true
	}
	base = append(base, req, vKW{Name: "type", Shape: shEnum, Enum: vTypeEnum, Req: true})
	if flavour == 2 || flavour == 3 {
		base = append(base, vKW{Name: "allowEmptyValue", Shape: shB})
	}
	return vSimple(base...)
}

// security scheme flavours
func vSecVocab(flavour int) []vKW {
	d := vKW{Name: "description", Shape: shS}
	switch flavour {
	case 0:
		return []vKW{{Name: "type", Shape: shConst, Enum: []string{"basic"}, Req: true}, d}
	case 1:
		return []vKW{{Name: "type", Shape: shConst, Enum: []string{"apiKey"}, Req: true}, {Name: "name", Shape: shS, Req: true}, {Name: "in", Shape: shEnum, Enum: []string{"header", "query"}, Req: true}, d}
	}
	flow := []string{"implicit", "password", "application", "accessCode"}[flavour-2]
	out := []vKW{{Name: "type", Shape: shConst, Enum: []string{"oauth2"}, Req: true}, {Name: "flow", Shape: shConst, Enum: []string{flow}, Req: true}, {Name: "scopes", Shape: shScopes}, d}
	if flow == "implicit" || flow == "accessCode" {
		out = append(out, vKW{Name: "authorizationUrl", Shape: shS, Req: true})
	}
	if flow != "implicit" {
		out = append(out, vKW{Name: "tokenUrl", Shape: shS, Req: true})
	}
	return out
}

// kinds on which the meta-schema allows ^x- members
var vExtensible = map[string]bool{"info": true, "contact": true, "license": true, "externalDocs": true, "tag": true, "xml": true, "items": true, "header": true,
	"response": true, "operation": true, "pathItem": true, "schema": true, "swagger": true, "parameter": true, "securityScheme": true, "paths": true, "responses": true}

type vDocOpts struct {
	exts    int // number of vendor extension members on the top-level object
	extras  int // number of unknown members (schemas only)
	nameLen int // symbolic bytes per member name
	sizes   int // container sizes
}

func vNonEmptyOStr(tag string) string {
	s := vNondetOStr(tag)
	if vParam("free", 0) == 0 {
		vAssume(s != "") // normal form; in free form (C19) a string may be empty
	}
	return s
}

// characters a member name may contain: letters of both cases, digit, quote, backslash, slash, tilde,
// percent, space, caret/dollar/braces (regex syntax), a control character and a two-byte UTF-8 character
const vNameAlphabet = "aZ0\"\\/~% ^${}\x01\xc3\xa9"

func vSymName(tag string, n int) string {
	s := vNondetStr(tag, n)
	for i := 0; i < n; i++ {
		vAssume(vInSet(s[i], vNameAlphabet))
	}
	vAssume(utf8Valid(s))
	return s
}

// free-form payload. Shape 0 is one rich value holding every JSON kind (string, number, booleans, nulls,
// empty objects, nesting, zero) and, under a symbolic bit, empty arrays; the other shapes are bare values.
// vPayloadFork: set by a harness that wants the default value of the top-level document to fork over shapes
var vPayloadFork bool

// vExtUpper: set by a harness that wants the first extension name of the top-level document to start with
// either "x-" or "X-" (tier parameter ext_upper)
var vExtUpper bool

func vAnyVal(tag string, depth int) vJ {
	k := vParam("any_shapes", 2)
	shape := 0
	if vPayloadFork && vParam("payload_fork", 0) == 1 && tag == "d.default" {
		// the payload of the top-level document takes, besides the rich value, a bare number (zero included)
		// and a bare string (empty included): zero values are where typed lookups and encoders disagree
		shape = []int{0, 2, 1}[vChoose(3, tag+".shapefork")]
	} else {
		shape = vVar(k, tag+".shape")
	}
	switch shape {
	case 0:
		f := vNondetFloat64(tag + ".f")
		vAssume(vFinite(f))
		ea := vNondetBool(tag + ".emptyarr")
		in := vJObj()
		vJAdd(in, true, "b", vJBool(vNondetBool(tag+".b")))
		vJAdd(in, true, "z", vJNull())
		vJAdd(in, ea, "e", vJArr([]vJ{}))
		o := vJObj()
		vJAdd(o, true, "k", vJArr([]vJ{vJStr(vNondetOStr(tag + ".s")), vJFloat(f), vJNull(), vJObj(), in, vJInt(0)}))
		vJAdd(o, true, "n", vJNull())
		vJAdd(o, ea, "ea", vJArr([]vJ{}))
		return o
	case 1:
		return vJStr(vNondetOStr(tag + ".s"))
	case 2:
		f := vNondetFloat64(tag + ".f")
		vAssume(vFinite(f))
		return vJFloat(f)
	case 3:
		return vJBool(vNondetBool(tag + ".b"))
	case 4:
		return vJArr([]vJ{})
	}
	return vJObj()
}

func vStrArr(tag string, n int) vJ {
	var el []vJ
	for i := 0; i < n; i++ {
		el = append(el, vJStr(vNonEmptyOStr(tag)))
	}
	return vJArr(el)
}

func vKindVocab(kind string, tag string) []vKW {
	switch kind {
	case "parameter":
		return vParamVocab(vChoose(5, tag+".in"))
	case "securityScheme":
		return vSecVocab(vChoose(6, tag+".flavour"))
	}
	return vVocab[kind]
}

// vBuildDoc: a normal-form document of the kind. depth 0 = minimal (required members only).
func vBuildDoc(kind string, depth int, tag string, o vDocOpts) vJ {
	switch kind {
	case "paths":
		return vBuildPaths(depth, tag, o)
	case "responses":
		return vBuildResponses(depth, tag, o)
	}
	if kind == "schema" && depth == 0 && tag == "d.schema" && vParam("ref_children", 0) == 1 && vChoose(2, tag+".isref") == 1 {
		r := vJObj()
		vJAdd(r, true, "$ref", vJStr("#/definitions/Pet"))
		return r
	}
	doc := vJObj()
	kws := vKindVocab(kind, tag)
	if tag == "d" {
		vTopVocab, vTopNames = kws, nil
	}
	for _, kw := range kws {
		if depth == 0 && !kw.Req {
			continue
		}
		present := true
		if !kw.Req {
			present = vNondetBool(tag + "." + kw.Name + ".present")
		}
		if depth > 0 && vWrongWhich > 0 {
			// arbitrary-JSON mode (C07): one member at a time takes a value of an arbitrary JSON kind,
			// is duplicated, or is spelled with another letter case
			vWrongCtr++
			if vWrongCtr == vWrongWhich {
				vNote("corrupted member: " + kw.Name)
				switch vWrongKind {
				case 6: // duplicate member (the second one of another kind)
					vJAdd(doc, true, kw.Name, vBuildVal(kw, depth, tag+"."+kw.Name, o))
					vJAdd(doc, true, kw.Name, vWrongVal(vChoose(6, "wrong.dupkind"), tag+".wrong"))
				case 7: // a member name that differs from the keyword by letter case only
					vCaseFolded = true
					vJAdd(doc, true, vUpperFirst(kw.Name), vBuildVal(kw, depth, tag+"."+kw.Name, o))
				default:
					vJAdd(doc, true, kw.Name, vWrongVal(vWrongKind, tag+".wrong"))
				}
				continue
			}
		}
		vJAdd(doc, present, kw.Name, vBuildVal(kw, depth, tag+"."+kw.Name, o))
	}
	if depth > 0 && vExtensible[kind] {
		for i := 0; i < o.exts; i++ {
			name := "x-" + vSymName(tag+".ext", o.nameLen) + string(rune('0'+i)) // the meta-schemas admit ^x- only (lower case)
			if tag == "d" && vParam("ext_upper", 0) == 1 && vExtUpper {
				// the decoders take the prefix in either case and the encoders emit the name as held: the
				// first byte is a solver variable over {x, X} (no fork unless the code looks at it)
				pfx := vNondetStr(tag+".ext.pfx", 1)
				vAssume(vInSet(pfx[0], "xX"))
				name = pfx + name[1:]
			}
			if tag == "d" {
				vTopNames = append(vTopNames, name)
			}
			vJAdd(doc, vNondetBool(tag+".ext.present"), name, vAnyVal(tag+".extval", 1))
			if i == 0 && vParam("case_twin", 0) == 1 {
				// a second extension whose name differs from the first by letter case only
				twin := "x-" + vSwapCase(name[2:])
				vAssume(twin != name)
				if tag == "d" {
					vTopNames = append(vTopNames, twin)
				}
				vJAdd(doc, vNondetBool(tag+".twin.present"), twin, vJStr(vNondetOStr(tag+".twinval")))
			}
		}
	}
	if depth > 0 && kind == "schema" {
		for i := 0; i < o.extras; i++ {
			// an unknown keyword: not an extension, not a keyword (names end in a digit, no keyword does)
			name := vSymName(tag+".extra", o.nameLen) + string(rune('0'+i))
			vAssume(!(name[0] == 'x' || name[0] == 'X') || name[1] != '-')
			if tag == "d" {
				vTopNames = append(vTopNames, name)
			}
			vJAdd(doc, vNondetBool(tag+".extra.present"), name, vAnyVal(tag+".extraval", 1))
		}
	}
	return doc
}

func vChildDepth(depth int) int {
	if depth > 0 {
		return depth - 1
	}
	return 0
}

func vBuildVal(kw vKW, depth int, tag string, o vDocOpts) vJ {
	cd := vChildDepth(depth)
	switch kw.Shape {
	case shS:
		return vJStr(vNonEmptyOStr(tag))
	case shB:
		if vParam("free", 0) == 1 {
			return vJBool(vNondetBool(tag))
		}
		return vJBool(true) // normal form: an optional boolean that is present is true
	case shN:
		f := vNondetFloat64(tag)
		vAssume(vFinite(f))
		return vJFloat(f)
	case shI:
		return vJInt(vNondetInt64(tag))
	case shSA:
		if vParam("free", 0) == 1 {
			return vStrArr(tag, vChoose(2, tag+".n")) // possibly empty
		}
		return vStrArr(tag, 1+vVar(o.sizes, tag+".n"))
	case shAny:
		return vAnyVal(tag, 1)
	case shAnyArr:
		n := 1 + vVar(o.sizes, tag+".n")
		var el []vJ
		for i := 0; i < n; i++ {
			el = append(el, vAnyVal(tag+".e", 1))
		}
		return vJArr(el)
	case shEnum:
		return vJStr(kw.Enum[vVar(len(kw.Enum), tag)])
	case shEnumA:
		return vJArr([]vJ{vJStr(kw.Enum[vVar(len(kw.Enum), tag)])})
	case shConst:
		return vJStr(kw.Enum[0])
	case shRef:
		refs := []string{"#/definitions/Pet", "other.json#/definitions/Pet", "http://h.example/s.json", "#", ""}
		if vParam("ref_primary", 0) == 1 {
			return vJStr(refs[vChoose(len(refs), tag)])
		}
		return vJStr(refs[vVar(3, tag)])
	case shSchemaURL:
		return vJStr([]string{"http://json-schema.org/draft-04/schema", "http://json-schema.org/draft-04/schema#"}[vChoose(2, tag)])
	case shChild:
		return vBuildDoc(kw.Kind, cd, tag, o)
	case shChildA:
		n := 1 + vVar(o.sizes, tag+".n")
		var el []vJ
		for i := 0; i < n; i++ {
			el = append(el, vBuildDoc(kw.Kind, cd, tag+".e", o))
		}
		return vJArr(el)
	case shChildM:
		m := vJObj()
		n := 1 + vVar(o.sizes, tag+".n")
		for i := 0; i < n; i++ {
			name := vSymName(tag+".key", o.nameLen) + string(rune('0'+i))
			vJAdd(m, true, name, vBuildDoc(kw.Kind, cd, tag+".v", o))
		}
		return m
	case shItems:
		if vVar(2, tag+".form") == 0 {
			return vBuildDoc("schema", cd, tag, o)
		}
		return vJArr([]vJ{vBuildDoc("schema", cd, tag+".t0", o)})
	case shSchOrB:
		if vVar(2, tag+".form") == 0 {
			return vBuildDoc("schema", cd, tag, o)
		}
		return vJBool(vNondetBool(tag + ".allows"))
	case shDeps:
		m := vJObj()
		if vVar(2, tag+".form") == 0 {
			vJAdd(m, true, "d0", vBuildDoc("schema", cd, tag+".v", o))
		} else {
			vJAdd(m, true, "d0", vStrArr(tag+".v", 1))
		}
		return m
	case shSec:
		// requirements: [ {name: [scope...]} ... ] including empty scope lists
		req := vJObj()
		// sec_empty: the first requirement may be the empty object {} (valid: "no security" alternative)
		vJAdd(req, vParam("sec_empty", 0) == 0 || vNondetBool(tag+".first.nonempty"), "s"+vSymName(tag+".scheme", 1), vStrArr(tag+".scope", vVar(2, tag+".nscopes")))
		if vParam("sec_reqs", 1) < 2 {
			return vJArr([]vJ{req})
		}
		req2 := vJObj()
		vJAdd(req2, true, "t"+vSymName(tag+".scheme2", 1), vStrArr(tag+".scope2", 1))
		vJAdd(req2, vNondetBool(tag+".second.present"), "u", vJArr([]vJ{}))
		return vJArr([]vJ{req, req2})
	case shScopes:
		m := vJObj()
		vJAdd(m, vParam("free", 0) == 0 || vNondetBool(tag+".nonempty"), "r"+vSymName(tag+".scope", 1), vJStr(vNonEmptyOStr(tag+".descr")))
		return m
	case shExamples:
		m := vJObj()
		vJAdd(m, true, "application/json", vAnyVal(tag+".ex", 1))
		return m
	case shParams:
		if vVar(2, tag+".form") == 0 {
			return vJArr([]vJ{vBuildDoc("parameter", cd, tag+".p", o)})
		}
		r := vJObj()
		vJAdd(r, true, "$ref", vJStr("#/parameters/limit"))
		return vJArr([]vJ{r})
	}
	panic("unhandled shape")
}

func vBuildPaths(depth int, tag string, o vDocOpts) vJ {
	doc := vJObj()
	if tag == "d" {
		vTopNames = nil
	}
	if depth == 0 {
		return doc
	}
	n := 1 + vVar(o.sizes, tag+".n")
	for i := 0; i < n; i++ {
		name := "/" + vSymName(tag+".path", o.nameLen) + string(rune('0'+i))
		if tag == "d" {
			vTopNames = append(vTopNames, name)
		}
		vJAdd(doc, true, name, vBuildDoc("pathItem", depth-1, tag+".item", o))
	}
	for i := 0; i < o.exts; i++ {
		name := "x-" + vSymName(tag+".ext", o.nameLen) + string(rune('0'+i))
		if tag == "d" {
			vTopNames = append(vTopNames, name)
		}
		vJAdd(doc, vNondetBool(tag+".ext.present"), name, vAnyVal(tag+".extval", 1))
	}
	return doc
}

func vDigit(tag string) byte {
	b := vNondetByte(tag)
	vAssume(vInSet(b, "0123456789"))
	return b
}

func vBuildResponses(depth int, tag string, o vDocOpts) vJ {
	doc := vJObj()
	cd := vChildDepth(depth)
	// required by the meta-schema: at least one response (normal form: a default response)
	vJAdd(doc, vParam("free", 0) == 0 || vNondetBool(tag+".default.present"), "default", vBuildDoc("response", cd, tag+".default", o))
	if depth == 0 {
		return doc
	}
	code := []string{"200", "404", "099", "600"}[vChoose(4, tag+".codeval")]
	if vVar(2, tag+".codeform") == 0 {
		vJAdd(doc, vNondetBool(tag+".code.present"), code, vBuildDoc("response", cd, tag+".code", o))
	} else {
		r := vJObj()
		vJAdd(r, true, "$ref", vJStr("#/responses/notFound"))
		vJAdd(doc, vNondetBool(tag+".code.present"), code, r)
	}
	for i := 0; i < o.exts; i++ {
		name := "x-" + vSymName(tag+".ext", o.nameLen) + string(rune('0'+i))
		vJAdd(doc, vNondetBool(tag+".ext.present"), name, vAnyVal(tag+".extval", 1))
	}
	return doc
}

// Secondary choices (payload shapes, union forms, enum values, sizes) are varied according to the
// tier parameter `vary`: 0 = all take their first alternative, 1 = one choice point at a time takes
// each of its alternatives (sum, not product), 2 = full product.
var vVarCtr, vVarWhich, vVarVal int

func vVarInit() {
	vVarCtr = 0
	vVarWhich, vVarVal = 0, 0
	if vParam("vary", 1) == 1 {
		vVarWhich = vChoose(vParam("vary_points", 24)+1, "vary.which")
		if vVarWhich > 0 {
			vVarVal = 1 + vChoose(vParam("vary_alts", 4), "vary.val")
		}
	}
}

func vVar(n int, tag string) int {
	switch vParam("vary", 1) {
	case 0:
		return 0
	case 2:
		return vChoose(n, tag)
	}
	vVarCtr++
	if vVarCtr == vVarWhich {
		vAssume(vVarVal < n) // this alternative does not exist at this choice point
		return vVarVal
	}
	return 0
}

// vocabulary and symbolic member names of the last top-level document built (for pointer checks)
var vTopVocab []vKW
var vTopNames []string

// arbitrary-JSON mode
var vWrongWhich, vWrongKind, vWrongCtr int
var vCaseFolded bool

func vWrongInit(members int) {
	vWrongCtr, vCaseFolded = 0, false
	vWrongWhich = vChoose(members+1, "wrong.which")
	vWrongKind = 0
	if vWrongWhich > 0 {
		vWrongKind = vChoose(8, "wrong.kind")
	}
}

func vSwapCase(s string) string {
	b := []byte(s)
	for i := range b {
		if b[i] >= 'a' && b[i] <= 'z' {
			b[i] -= 32
		} else if b[i] >= 'A' && b[i] <= 'Z' {
			b[i] += 32
		}
	}
	return string(b)
}

func vUpperFirst(s string) string {
	b := []byte(s)
	for i := range b {
		if b[i] >= 'a' && b[i] <= 'z' {
			b[i] -= 32
			return string(b)
		}
		if b[i] >= 'A' && b[i] <= 'Z' {
			b[i] += 32
			return string(b)
		}
	}
	return s + "X"
}

// a value of the given JSON kind: 0 null, 1 bool, 2 number, 3 string, 4 array, 5 object
func vWrongVal(kind int, tag string) vJ {
	switch kind {
	case 0:
		return vJNull()
	case 1:
		return vJBool(vNondetBool(tag + ".b"))
	case 2:
		if vChoose(2, tag+".numkind") == 0 {
			return vJInt(vNondetInt64(tag + ".i"))
		}
		f := vNondetFloat64(tag + ".f")
		vAssume(vFinite(f))
		return vJFloat(f)
	case 3:
		switch vChoose(3, tag+".strkind") {
		case 0:
			return vJStr("")
		case 1:
			return vJStr("%zz junk \\ \"") // not a URL
		}
		return vJStr("urn:a\\b") // a URL with a character that needs escaping in JSON
	case 4:
		switch vChoose(4, tag+".arrkind") {
		case 0:
			return vJArr([]vJ{})
		case 1:
			return vJArr([]vJ{vJStr(vNondetOStr(tag + ".s")), vJNull()})
		case 3:
			return vJArr([]vJ{vJStr("")})
		}
		return vJArr([]vJ{vJObj(), vJInt(0)})
	}
	switch vChoose(3, tag+".objkind") {
	case 0:
		return vJObj()
	case 1:
		o := vJObj()
		vJAdd(o, true, "k", vJStr(vNondetOStr(tag+".s")))
		vJAdd(o, true, "$ref", vJInt(1))
		return o
	}
	o := vJObj()
	vJAdd(o, true, "type", vJArr([]vJ{vJStr("")}))
	vJAdd(o, true, "items", vJArr([]vJ{}))
	vJAdd(o, true, "x-a", vJNull())
	return o
}

func vDocParams() vDocOpts {
	vVarInit()
	vWrongWhich = 0
	return vDocOpts{exts: vParam("exts", 1), extras: vParam("extras", 1), nameLen: vParam("name_len", 1), sizes: vParam("sizes", 1)}
}
