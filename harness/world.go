//go:build verif

package spec

import (
	"encoding/json"
	"errors"
	"net/url"
	"strconv"
	"strings"
)

// Reference-graph worlds: a few concrete documents served by an in-memory loader; which slot holds
// which $ref (target x spelling x keyword position) is chosen by selectors, options and map orders
// are symbolic. The oracles below (RFC 3986 / RFC 6901 resolution on generic JSON, unfolding
// bisimulation, cycle analysis) share no code with the expander's normaliser or loader.

type vWorld struct {
	docs    map[string]string // canonical URL -> JSON text
	root    string            // URL of the root document
	loads   []string          // loader log
	failAll bool
	fail    map[string]bool // URLs the loader refuses
	generic map[string]interface{}
}

var vErrNoDoc = errors.New("verif: no such document")

func (w *vWorld) loader(u string) (json.RawMessage, error) {
	w.loads = append(w.loads, u)
	if w.fail[u] {
		return nil, vErrLoad
	}
	txt, ok := w.docs[u]
	if !ok {
		return nil, vErrNoDoc
	}
	return json.RawMessage(txt), nil
}

// genericDoc: the document as plain JSON (decoded once, by encoding/json on interface{})
func (w *vWorld) genericDoc(u string) (interface{}, bool) {
	if w.generic == nil {
		w.generic = map[string]interface{}{}
	}
	if d, ok := w.generic[u]; ok {
		return d, true
	}
	txt, ok := w.docs[u]
	if !ok || w.fail[u] {
		return nil, false
	}
	var d interface{}
	if json.Unmarshal([]byte(txt), &d) != nil {
		return nil, false
	}
	w.generic[u] = d
	return d, true
}

// ---- RFC 6901 on generic JSON ----

func vPtrUnescape(tok string) string {
	tok = strings.ReplaceAll(tok, "~1", "/")
	return strings.ReplaceAll(tok, "~0", "~")
}

func vPtrEval(doc interface{}, frag string) (interface{}, bool) {
	if frag == "" {
		return doc, true
	}
	if !strings.HasPrefix(frag, "/") {
		return nil, false
	}
	cur := doc
	for _, tok := range strings.Split(frag[1:], "/") {
		tok = vPtrUnescape(tok)
		switch n := cur.(type) {
		case map[string]interface{}:
			nx, ok := n[tok]
			if !ok {
				return nil, false
			}
			cur = nx
		case []interface{}:
			i, err := strconv.Atoi(tok)
			if err != nil || i < 0 || i >= len(n) {
				return nil, false
			}
			cur = n[i]
		default:
			return nil, false
		}
	}
	return cur, true
}

// ---- RFC 3986 resolution of a $ref found in document docURL ----

type vNodeID struct {
	doc string // canonical URL of the document
	ptr string // JSON pointer (decoded fragment)
}

func vResolveRef(docURL, ref string) (vNodeID, bool) {
	b, err1 := url.Parse(docURL)
	r, err2 := url.Parse(ref)
	if err1 != nil || err2 != nil {
		return vNodeID{}, false
	}
	t := b.ResolveReference(r)
	frag := t.Fragment
	t.Fragment, t.RawFragment = "", ""
	return vNodeID{doc: t.String(), ptr: frag}, true
}

func (w *vWorld) node(id vNodeID) (interface{}, bool) {
	d, ok := w.genericDoc(id.doc)
	if !ok {
		return nil, false
	}
	return vPtrEval(d, id.ptr)
}

func vRefOf(n interface{}) (string, bool) {
	m, ok := n.(map[string]interface{})
	if !ok {
		return "", false
	}
	r, ok := m["$ref"].(string)
	return r, ok
}

func vPtrJoin(ptr, tok string) string {
	tok = strings.ReplaceAll(strings.ReplaceAll(tok, "~", "~0"), "/", "~1")
	return ptr + "/" + tok
}

// ---- bisimulation of unfoldings ("$ref replaces its holder") ----

type vPair struct{ a, b vNodeID }

type vBisim struct {
	in, out  *vWorld
	seen     map[vPair]bool
	steps    int
	why      string
	verbatim bool // unresolvable references must be the same text on both sides
}

// lastRef: the $ref string at the end of the resolvable part of a chain starting at id
func vLastRef(w *vWorld, id vNodeID) (string, bool) {
	for hops := 0; hops < 32; hops++ {
		n, ok := w.node(id)
		if !ok {
			return "", false
		}
		r, isRef := vRefOf(n)
		if !isRef {
			return "", false
		}
		nid, ok := vResolveRef(id.doc, r)
		if !ok {
			return r, true
		}
		if tn, ok := w.node(nid); !ok {
			return r, true
		} else if _, isObj := tn.(map[string]interface{}); !isObj {
			return r, true
		}
		id = nid
	}
	return "", false
}

// deref follows $refs from node id until a non-reference node is reached (bounded by hops)
func vDeref(w *vWorld, id vNodeID) (vNodeID, interface{}, bool) {
	for hops := 0; hops < 32; hops++ {
		n, ok := w.node(id)
		if !ok {
			return id, nil, false
		}
		r, isRef := vRefOf(n)
		if !isRef {
			return id, n, true
		}
		nid, ok := vResolveRef(id.doc, r)
		if !ok {
			return id, nil, false
		}
		id = nid
	}
	return id, nil, false // a chain of pure references that never ends: not well-founded
}

// vNonSchemaHolder: the pointer addresses a parameter, response or path item (not a schema position)
func vNonSchemaHolder(ptr string) bool {
	toks := strings.Split(ptr, "/")
	if len(toks) < 2 {
		return false
	}
	switch toks[len(toks)-2] {
	case "responses", "parameters", "paths":
		return true
	}
	return false
}

func mustNode(w *vWorld, id vNodeID) interface{} {
	n, _ := w.node(id)
	return n
}

func (b *vBisim) eq(x, y vNodeID) bool {
	b.steps++
	if b.steps > 20000 {
		b.why = "comparison budget exceeded"
		return false
	}
	xd, xn, ok1 := vDeref(b.in, x)
	yd, yn, ok2 := vDeref(b.out, y)
	if b.verbatim {
		// a reference to something that is not an object is as unresolvable as a dangling one
		if ok1 {
			if _, isRefHolder := vRefOf(mustNode(b.in, x)); isRefHolder {
				if _, isObj := xn.(map[string]interface{}); !isObj {
					ok1 = false
				}
			}
		}
		if ok2 {
			if _, isRefHolder := vRefOf(mustNode(b.out, y)); isRefHolder {
				if _, isObj := yn.(map[string]interface{}); !isObj {
					ok2 = false
				}
			}
		}
	}
	if !ok1 || !ok2 {
		if ok1 != ok2 {
			if b.verbatim && !ok1 && vNonSchemaHolder(x.ptr) {
				return true
			}
			b.why = "a reference resolves on one side only: " + x.doc + "#" + x.ptr + " vs " + y.doc + "#" + y.ptr
			return false
		}
		if b.verbatim && vNonSchemaHolder(x.ptr) {
			return true // only schema $refs are required to stay verbatim; what replaces an unresolvable parameter / response / path item is not prescribed
		}
		if b.verbatim {
			rx, okx := vLastRef(b.in, x)
			ry, oky := vLastRef(b.out, y)
			if !okx || !oky || rx != ry {
				b.why = "an unresolvable $ref was rewritten: " + rx + " -> " + ry
				return false
			}
		}
		return true
	}
	p := vPair{xd, yd}
	if b.seen[p] {
		return true // coinduction
	}
	b.seen[p] = true
	switch xv := xn.(type) {
	case map[string]interface{}:
		yv, ok := yn.(map[string]interface{})
		if !ok || len(xv) != len(yv) {
			b.why = "object shape differs at " + xd.doc + "#" + xd.ptr + " vs " + yd.doc + "#" + yd.ptr
			return false
		}
		for k := range xv {
			if _, ok := yv[k]; !ok {
				b.why = "member " + k + " missing at " + yd.doc + "#" + yd.ptr
				return false
			}
			if !b.eq(vNodeID{xd.doc, vPtrJoin(xd.ptr, k)}, vNodeID{yd.doc, vPtrJoin(yd.ptr, k)}) {
				return false
			}
		}
		return true
	case []interface{}:
		yv, ok := yn.([]interface{})
		if !ok || len(xv) != len(yv) {
			b.why = "array shape differs at " + xd.doc + "#" + xd.ptr
			return false
		}
		for i := range xv {
			if !b.eq(vNodeID{xd.doc, vPtrJoin(xd.ptr, strconv.Itoa(i))}, vNodeID{yd.doc, vPtrJoin(yd.ptr, strconv.Itoa(i))}) {
				return false
			}
		}
		return true
	default:
		if xn != yn {
			b.why = "scalar differs at " + xd.doc + "#" + xd.ptr + " vs " + yd.doc + "#" + yd.ptr
			return false
		}
		return true
	}
}

// ---- cycle analysis of the input reference graph ----

// refsIn: targets of every $ref textually inside the subtree of node id
func (w *vWorld) refsIn(id vNodeID, n interface{}, out *[]vNodeID) {
	switch v := n.(type) {
	case map[string]interface{}:
		if r, ok := v["$ref"].(string); ok {
			if t, ok := vResolveRef(id.doc, r); ok {
				*out = append(*out, t)
			}
			return
		}
		for k, c := range v {
			w.refsIn(vNodeID{id.doc, vPtrJoin(id.ptr, k)}, c, out)
		}
	case []interface{}:
		for i, c := range v {
			w.refsIn(vNodeID{id.doc, vPtrJoin(id.ptr, strconv.Itoa(i))}, c, out)
		}
	}
}

// onCycle: unfolding the node never ends (some chain of references from it comes back to it or to a container of it)
func (w *vWorld) onCycle(id vNodeID) bool {
	visited := map[vNodeID]bool{}
	var stack []vNodeID
	push := func(from vNodeID) {
		n, ok := w.node(from)
		if !ok {
			return
		}
		var ts []vNodeID
		w.refsIn(from, n, &ts)
		stack = append(stack, ts...)
	}
	push(id)
	for len(stack) > 0 {
		t := stack[len(stack)-1]
		stack = stack[:len(stack)-1]
		if t.doc == id.doc && (t.ptr == id.ptr || strings.HasPrefix(id.ptr, t.ptr+"/") || t.ptr == "") {
			return true
		}
		if visited[t] {
			continue
		}
		visited[t] = true
		push(t)
	}
	return false
}

// allRefs: every $ref string in a generic JSON value, with the pointer of its holder
func vAllRefs(n interface{}, ptr string, out *[][2]string) {
	switch v := n.(type) {
	case map[string]interface{}:
		if r, ok := v["$ref"].(string); ok {
			*out = append(*out, [2]string{ptr, r})
		}
		for k, c := range v {
			if k == "$ref" {
				continue
			}
			vAllRefs(c, vPtrJoin(ptr, k), out)
		}
	case []interface{}:
		for i, c := range v {
			vAllRefs(c, vPtrJoin(ptr, strconv.Itoa(i)), out)
		}
	}
}
