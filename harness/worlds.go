//go:build verif

package spec

import (
	"encoding/json"
	"strings"
)

// World families. Document locations exercise directory arithmetic:
var (
	vURoot = "file:///w/root.json"
	vUSub  = "file:///w/sub/a.json"
	vUFar  = "file:///x/c.json"
)

// vUseURLSet: 0 = local files; 1 = http documents, the third one on another port of the same host
func vUseURLSet(k int) {
	if k == 1 {
		vURoot, vUSub, vUFar = "http://h.example:8001/w/root.json", "http://h.example:8001/w/sub/a.json", "http://h.example:8002/x/c.json"
	} else if k == 2 {
		// a sibling directory whose name starts with the name of the root's directory, and a deeper one
		vURoot, vUSub, vUFar = "file:///w/api/root.json", "file:///w/api-common/a.json", "file:///w/api/deep/c.json"
	} else {
		vURoot, vUSub, vUFar = "file:///w/root.json", "file:///w/sub/a.json", "file:///x/c.json"
	}
}

// keyword positions that can hold a sub-schema
var vKwPos = []string{"properties", "items", "allOf", "additionalProperties", "tuple", "anyOf", "oneOf", "not", "additionalItems", "patternProperties", "dependencies", "definitions"}

// vSlotJSON: the member(s) placing schema text s at keyword position kp (empty s = no member)
func vSlotJSON(kp int, s string) string {
	if s == "" {
		return ""
	}
	switch vKwPos[kp] {
	case "properties":
		return `,"properties":{"p~/q":` + s + `}`
	case "items":
		return `,"items":` + s
	case "tuple":
		return `,"items":[` + s + `,{"description":"second element of the tuple"}]`
	case "allOf", "anyOf", "oneOf":
		return `,"` + vKwPos[kp] + `":[` + s + `]`
	case "not":
		return `,"not":` + s
	case "additionalProperties", "additionalItems":
		return `,"` + vKwPos[kp] + `":` + s
	case "patternProperties":
		return `,"patternProperties":{"^p":` + s + `}`
	case "dependencies":
		return `,"dependencies":{"aa":["description"],"d":` + s + `,"zz":["description"]}`
	}
	return `,"definitions":{"n":` + s + `}`
}

func vDefJSON(label string, kp int, slot string) string {
	// every definition also carries a property dependency (an array of names, not a schema): the keyword
	// loop must step over it and go on with the keywords that follow
	dep := `,"dependencies":{"zz":["description"]}`
	if vKwPos[kp] == "dependencies" && slot != "" {
		dep = ""
	}
	return `{"description":"` + label + `","x-leaf":{"description":"leaf of ` + label + `"}` + dep + vSlotJSON(kp, slot) + `}`
}

func vRefJSON(ref string) string {
	if ref == "" {
		return ""
	}
	return `{"$ref":"` + ref + `"}`
}

// vRelPath: relative reference from document URL `from` to document URL `to` (same scheme and authority)
func vRelPath(from, to string) string {
	cut := func(u string) []string {
		i := strings.Index(u, "://")
		rest := u[i+3:]
		j := strings.Index(rest, "/")
		return strings.Split(rest[j+1:], "/")
	}
	f, t := cut(from), cut(to)
	fd := f[:len(f)-1]
	k := 0
	for k < len(fd) && k < len(t)-1 && fd[k] == t[k] {
		k++
	}
	out := ""
	for i := k; i < len(fd); i++ {
		out += "../"
	}
	return out + strings.Join(t[k:], "/")
}

// spellings of a reference from a holder document to a definition of a target document
func vSpell(holder, target, frag string, alt int) string {
	if holder == target && alt == 0 {
		return "#" + frag
	}
	if alt == 2 {
		return target + "#" + frag // absolute
	}
	known := target == vURoot || target == vUSub || target == vUFar
	if !known || (holder == vUFar) != (target == vUFar) && !strings.HasPrefix(vUFar, "file:") {
		return target + "#" + frag // another authority, or a location spelled specially (e.g. with a query): absolute form
	}
	return vRelPath(holder, target) + "#" + frag
}

type vTarget struct {
	doc, frag string
	single    bool // only the shortest spelling is used
}

// vPickRef: none, or a reference to one of the targets in one of the spellings
func vPickRef(tag, holder string, targets []vTarget) string {
	k := vChoose(1+len(targets), tag+".target")
	if k == 0 {
		return ""
	}
	t := targets[k-1]
	if t.single {
		return vSpell(holder, t.doc, t.frag, 0)
	}
	return vSpell(holder, t.doc, t.frag, vChoose(vParam("spellings", 2), tag+".spelling"))
}

// ---- family 1: schemas across three documents ----

func vWorldSchemas() *vWorld {
	vUseURLSet(0)
	kp := vChoose(vParam("kwpos", len(vKwPos)), "kwpos")
	targets := []vTarget{{doc: vURoot, frag: "/definitions/A"}, {doc: vURoot, frag: "/definitions/B"}, {doc: vUSub, frag: "/definitions/C%20d"}, {doc: vUFar, frag: "/definitions/D"}}
	if vParam("nested_targets", 1) == 1 {
		// a whole document, and a pointer below a definition
		// (and a pointer to an object inside a definition: its text continues the text of a reference that may be
		// on the stack of references being unfolded, without closing any cycle)
		targets = append(targets, vTarget{vUSub, "", true}, vTarget{vURoot, "/definitions/A/description", true}, vTarget{vUSub, "/definitions/C%20d/x-leaf", true})
	}
	a := vPickRef("A", vURoot, targets)
	b := vPickRef("B", vURoot, targets)
	c := vPickRef("C", vUSub, targets)
	d := ""
	if vParam("slots", 3) > 3 {
		d = vPickRef("D", vUFar, targets)
	}
	w := &vWorld{root: vURoot, docs: map[string]string{}}
	w.docs[vURoot] = `{"swagger":"2.0","info":{"title":"t","version":"1"},"paths":{},"definitions":{"A":` + vDefJSON("la", kp, vRefJSON(a)) + `,"B":` + vDefJSON("lb", kp, vRefJSON(b)) + `}}`
	w.docs[vUSub] = `{"description":"doc-sub","definitions":{"C d":` + vDefJSON("lc", kp, vRefJSON(c)) + `}}`
	w.docs[vUFar] = `{"definitions":{"D":` + vDefJSON("ld", kp, vRefJSON(d)) + `}}`
	return w
}

// small worlds aimed at two specific confusions: documents on different ports of one host, and
// definition names that differ by letter case only
func vWorldPorts() *vWorld {
	vUseURLSet(1)
	kp := vChoose(vParam("kwpos", len(vKwPos)), "kwpos")
	a := vPickRef("A", vURoot, []vTarget{{doc: vUFar, frag: "/definitions/D", single: true}, {doc: vUSub, frag: "/definitions/C%20d"}})
	c := vPickRef("C", vUSub, []vTarget{{doc: vUSub, frag: "/definitions/C%20d", single: true}, {doc: vUFar, frag: "/definitions/D", single: true}})
	d := vPickRef("D", vUFar, []vTarget{{doc: vUFar, frag: "/definitions/D"}, {doc: vURoot, frag: "/definitions/A", single: true}})
	w := &vWorld{root: vURoot, docs: map[string]string{}}
	w.docs[vURoot] = `{"swagger":"2.0","info":{"title":"t","version":"1"},"paths":{},"definitions":{"A":` + vDefJSON("la", kp, vRefJSON(a)) + `}}`
	w.docs[vUSub] = `{"definitions":{"C d":` + vDefJSON("lc", kp, vRefJSON(c)) + `}}`
	w.docs[vUFar] = `{"definitions":{"D":` + vDefJSON("ld", kp, vRefJSON(d)) + `}}`
	return w
}

func vWorldCaseTwins() *vWorld {
	vUseURLSet(0)
	kp := vChoose(vParam("kwpos", len(vKwPos)), "kwpos")
	ts := []vTarget{{doc: vUSub, frag: "/definitions/E"}, {doc: vUSub, frag: "/definitions/e"}}
	e1 := vPickRef("E", vUSub, ts)
	e2 := vPickRef("e", vUSub, ts)
	a := vPickRef("A", vURoot, ts)
	w := &vWorld{root: vURoot, docs: map[string]string{}}
	w.docs[vURoot] = `{"swagger":"2.0","info":{"title":"t","version":"1"},"paths":{},"definitions":{"A":` + vDefJSON("la", kp, vRefJSON(a)) + `}}`
	w.docs[vUSub] = `{"definitions":{"E":` + vDefJSON("upper", kp, vRefJSON(e1)) + `,"e":` + vDefJSON("lower", kp, vRefJSON(e2)) + `}}`
	return w
}

// ---- family 2: chains of parameter / response / path-item references crossing documents ----

func vWorldChains(which int) *vWorld {
	vUseURLSet(0)
	pick := func(active bool, tag, holder string, targets []vTarget) string {
		if !active {
			return ""
		}
		return vPickRef(tag, holder, targets)
	}
	// root: parameters P0 (slot), P1 (inline), Q2 (inline, other content than sub's Q2); same for responses
	// sub:  parameters Q1 (slot), Q2 (inline body with a local schema ref)
	p0 := pick(which == 0, "P0", vURoot, []vTarget{{doc: vURoot, frag: "/parameters/P1"}, {doc: vUSub, frag: "/parameters/Q1"}, {doc: vUSub, frag: "/parameters/Q2"}})
	q1 := pick(which == 0, "Q1", vUSub, []vTarget{{doc: vUSub, frag: "/parameters/Q2"}, {doc: vURoot, frag: "/parameters/P1"}})
	r0 := pick(which == 1, "R0", vURoot, []vTarget{{doc: vURoot, frag: "/responses/R1"}, {doc: vUSub, frag: "/responses/S1"}, {doc: vUSub, frag: "/responses/S2"}})
	s1 := pick(which == 1, "S1", vUSub, []vTarget{{doc: vUSub, frag: "/responses/S2"}, {doc: vURoot, frag: "/responses/R1"}})
	pi := pick(which == 2, "PI", vURoot, []vTarget{{doc: vUSub, frag: "/x-items/I1"}, {doc: vUFar, frag: "/x-items/J1"}, {doc: vUSub, frag: "/x-items/I0"}})
	i0 := pick(which == 2, "I0", vUSub, []vTarget{{doc: vUFar, frag: "/x-items/J1"}, {doc: vUSub, frag: "/x-items/I1"}})
	orInline := func(ref, inline string) string {
		if ref == "" {
			return inline
		}
		return vRefJSON(ref)
	}
	w := &vWorld{root: vURoot, docs: map[string]string{}}
	item := `{"get":{"parameters":[{"$ref":"#/parameters/P0"}],"responses":{"200":{"$ref":"#/responses/R0"}}}}`
	w.docs[vURoot] = `{"swagger":"2.0","info":{"title":"t","version":"1"},` +
		`"paths":{"/p":` + orInline(pi, item) + `},` +
		`"definitions":{"C":{"description":"root-C"}},` +
		`"parameters":{"P0":` + orInline(p0, `{"name":"p0","in":"query","type":"string"}`) + `,"P1":{"name":"p1","in":"body","schema":{"$ref":"#/definitions/C"}},"Q2":{"name":"root-q2","in":"query","type":"integer"}},` +
		`"responses":{"R0":` + orInline(r0, `{"description":"r0"}`) + `,"R1":{"description":"r1","schema":{"$ref":"#/definitions/C"}},"S2":{"description":"root-s2"}}}`
	w.docs[vUSub] = `{"definitions":{"C":{"description":"sub-C"}},` +
		`"parameters":{"Q1":` + orInline(q1, `{"name":"q1","in":"header","type":"string"}`) + `,"Q2":{"name":"q2","in":"body","schema":{"$ref":"#/definitions/C"}}},` +
		`"responses":{"S1":` + orInline(s1, `{"description":"s1"}`) + `,"S2":{"description":"s2","schema":{"$ref":"#/definitions/C"}}},` +
		`"x-items":{"I0":` + orInline(i0, `{"put":{"responses":{"default":{"description":"i0"}}}}`) + `,"I1":{"get":{"parameters":[{"$ref":"#/parameters/Q2"}],"responses":{"200":{"$ref":"#/responses/S2"}}}}}}`
	w.docs[vUFar] = `{"definitions":{"C":{"description":"far-C"}},"x-items":{"J1":{"post":{"responses":{"default":{"description":"j","schema":{"$ref":"#/definitions/C"}}}}}}}`
	return w
}

func (w *vWorld) decodeRoot() (*Swagger, bool) {
	var root Swagger
	if json.Unmarshal([]byte(w.docs[w.root]), &root) != nil {
		return nil, false
	}
	return &root, true
}

// outWorld: the input world with its root replaced by the expanded root
func (w *vWorld) outWorld(root *Swagger) (*vWorld, bool) {
	out, err := json.Marshal(root)
	if err != nil {
		return nil, false
	}
	ow := &vWorld{root: w.root, docs: map[string]string{}, fail: w.fail}
	for k, v := range w.docs {
		ow.docs[k] = v
	}
	ow.docs[w.root] = string(out)
	return ow, true
}

func vIsAbsURL(s string) bool {
	return strings.HasPrefix(s, "file://") || strings.HasPrefix(s, "http://") || strings.HasPrefix(s, "https://")
}

// ---- family 3: imports — a path item imported from another directory whose path-level parameters,
// operation parameters, status-code and default responses hold relative references of their own, and
// parameter / response chains of up to three hops that change directory at every hop ----

const vUDeep = "file:///w/sub/deep/b.json"

func vWorldImports(which int) *vWorld {
	vUseURLSet(0)
	alt := func(active bool, tag string, alts ...string) string {
		if !active {
			return alts[0]
		}
		return alts[vChoose(len(alts), tag)]
	}
	ps, rs := which == 0 || which == 3, which == 1
	cyc := which == 3                            // mode 3: the parameter chain may end in the second document on a parameter whose schema lies on a cycle there
	pi, ri := ps || which == 2, rs || which == 2 // mode 2: only the members of the imported path item vary, all at once
	p0 := alt(ps, "P0", `{"name":"p0","in":"query","type":"string"}`, `{"$ref":"sub/a.json#/parameters/Q1"}`)
	q1alts := []string{`{"name":"q1","in":"header","type":"string"}`, `{"$ref":"deep/b.json#/parameters/D1"}`}
	subC := `{"description":"sub-C"}`
	if cyc {
		q1alts = []string{`{"$ref":"#/parameters/Q2"}`, `{"$ref":"deep/b.json#/parameters/D1"}`}
		subC = `{"description":"sub-C","properties":{"again":{"$ref":"#/definitions/C"}}}`
	}
	q1 := alt(ps, "Q1", q1alts...)
	d1 := alt(ps && !cyc, "D1", `{"name":"d1","in":"body","schema":{"$ref":"#/definitions/E"}}`, `{"$ref":"../../../x/c.json#/parameters/F1"}`)
	pl := alt(pi && !cyc, "PL", `{"$ref":"deep/b.json#/parameters/D1"}`, `{"$ref":"#/parameters/Q2"}`, `{"name":"pl","in":"body","schema":{"$ref":"deep/b.json#/definitions/E"}}`)
	op := alt(pi && !cyc, "OP", `{"$ref":"#/parameters/Q1"}`, `{"name":"op","in":"body","schema":{"$ref":"#/definitions/C"}}`, `{"$ref":"../root.json#/parameters/D1"}`)
	r0 := alt(rs, "R0", `{"description":"r0"}`, `{"$ref":"sub/a.json#/responses/S1"}`)
	s1 := alt(rs, "S1", `{"description":"s1"}`, `{"$ref":"deep/b.json#/responses/T1"}`)
	t1 := alt(rs, "T1", `{"description":"t1","schema":{"$ref":"#/definitions/C"}}`, `{"$ref":"../../../x/c.json#/responses/F1"}`)
	r200 := alt(ri, "R200", `{"$ref":"deep/b.json#/responses/T1"}`, `{"description":"in200","schema":{"$ref":"deep/b.json#/definitions/E"}}`, `{"$ref":"#/responses/S2"}`)
	rdef := alt(ri, "RDEF", `{"$ref":"deep/b.json#/responses/T1"}`, `{"description":"indef","schema":{"$ref":"deep/b.json#/definitions/E"}}`, `{"$ref":"#/responses/S2"}`)
	w := &vWorld{root: vURoot, docs: map[string]string{}}
	w.docs[vURoot] = `{"swagger":"2.0","info":{"title":"t","version":"1"},` +
		`"paths":{"/p":{"$ref":"sub/a.json#/x-items/I1"},"/q":{"get":{"parameters":[{"$ref":"#/parameters/P0"}],"responses":{"200":{"$ref":"#/responses/R0"}}}}},` +
		`"definitions":{"C":{"description":"root-C"},"E":{"description":"root-E"}},` +
		`"parameters":{"P0":` + p0 + `,"D1":{"name":"root-d1","in":"query","type":"string"},"Q2":{"name":"root-q2","in":"query","type":"integer"}},` +
		`"responses":{"R0":` + r0 + `,"T1":{"description":"root-t1"},"S2":{"description":"root-s2"}}}`
	w.docs[vUSub] = `{"definitions":{"C":` + subC + `,"E":{"description":"sub-E"}},` +
		`"parameters":{"Q1":` + q1 + `,"Q2":{"name":"q2","in":"body","schema":{"$ref":"#/definitions/C"}},"D1":{"name":"sub-d1","in":"query","type":"string"}},` +
		`"responses":{"S1":` + s1 + `,"S2":{"description":"s2","schema":{"$ref":"deep/b.json#/definitions/E"}},"T1":{"description":"sub-t1"}},` +
		`"x-items":{"I1":{"parameters":[` + pl + `],"get":{"parameters":[` + op + `],"responses":{"200":` + r200 + `,"default":` + rdef + `}},"put":{"operationId":"no-responses","parameters":[{"$ref":"#/parameters/Q2"}]}}}}`
	w.docs[vUDeep] = `{"definitions":{"E":{"description":"deep-E"},"C":{"description":"deep-C"}},` +
		`"parameters":{"D1":` + d1 + `},"responses":{"T1":` + t1 + `}}`
	w.docs[vUFar] = `{"definitions":{"C":{"description":"far-C"},"E":{"description":"far-E"}},` +
		`"parameters":{"F1":{"name":"f1","in":"body","schema":{"$ref":"#/definitions/C"}}},` +
		`"responses":{"F1":{"description":"f1","schema":{"$ref":"#/definitions/C"}}}}`
	return w
}

// allowedLoads: the canonical URLs of the documents that some $ref of the world designates (RFC 3986,
// relative to the document that textually contains the $ref), plus the root
func (w *vWorld) allowedLoads() map[string]bool {
	ok := map[string]bool{w.root: true}
	for u := range w.docs {
		d, has := w.genericDoc(u)
		if !has {
			continue
		}
		var refs [][2]string
		vAllRefs(d, "", &refs)
		for _, r := range refs {
			if id, fine := vResolveRef(u, r[1]); fine {
				ok[id.doc] = true
			}
		}
	}
	return ok
}

// ---- family 4: one document, a path item with all seven methods (each with a referenced parameter and
// response), a path-level parameter, and an operation without a responses object ----

var vVerbs = []string{"get", "put", "post", "delete", "options", "head", "patch"}

func vWorldOps(faulty bool) *vWorld {
	vUseURLSet(0)
	// the slot: the target of one parameter reference of the operation that has no responses
	ts := []vTarget{{doc: vURoot, frag: "/parameters/P1", single: true}}
	if faulty {
		ts = append(ts, vTarget{doc: vURoot, frag: "/parameters/Nope", single: true}, vTarget{doc: "file:///w/missing.json", frag: "/parameters/X", single: true})
	}
	bare := vPickRef("BARE", vURoot, ts)
	if bare == "" {
		bare = "#/parameters/P1"
	}
	plv := "#/parameters/P2" // the path-level parameter reference
	if faulty && vChoose(2, "PLV") == 1 {
		plv = "#/parameters/Nope"
	}
	ops := ""
	for i, v := range vVerbs {
		if i > 0 {
			ops += ","
		}
		ops += `"` + v + `":{"operationId":"` + v + `","parameters":[{"$ref":"#/parameters/P1"}],"responses":{"200":{"$ref":"#/responses/R1"},"default":{"description":"d-` + v + `","schema":{"$ref":"#/definitions/A"}}}}`
	}
	w := &vWorld{root: vURoot, docs: map[string]string{}, fail: map[string]bool{}}
	w.docs[vURoot] = `{"swagger":"2.0","info":{"title":"t","version":"1"},` +
		`"paths":{"/all":{"parameters":[{"$ref":"` + plv + `"}],` + ops + `},"/bare":{"post":{"operationId":"bare","parameters":[{"$ref":"` + bare + `"},{"name":"b","in":"body","schema":{"$ref":"#/definitions/A"}}]}}},` +
		`"definitions":{"A":{"description":"la","properties":{"b":{"$ref":"#/definitions/B"}}},"B":{"description":"lb"}},` +
		`"parameters":{"P1":{"name":"p1","in":"body","schema":{"$ref":"#/definitions/B"}},"P2":{"name":"p2","in":"query","type":"string"}},` +
		`"responses":{"R1":{"description":"r1","schema":{"$ref":"#/definitions/A"}}}}`
	return w
}

// ---- family 5: a single in-memory document (no location given to the expander) ----

func vWorldLocalDoc() *vWorld {
	vUseURLSet(0)
	kp := vChoose(vParam("kwpos", len(vKwPos)), "kwpos")
	ts := []vTarget{{doc: vURoot, frag: "/definitions/A", single: true}, {doc: vURoot, frag: "/definitions/B", single: true}, {doc: vURoot, frag: "/definitions/A/x-leaf", single: true}}
	a := vPickRef("A", vURoot, ts)
	b := vPickRef("B", vURoot, ts)
	w := &vWorld{root: vURoot, docs: map[string]string{}}
	w.docs[vURoot] = `{"swagger":"2.0","info":{"title":"t","version":"1"},` +
		`"paths":{"/p":{"get":{"parameters":[{"name":"b","in":"body","schema":{"$ref":"#/definitions/A"}}],"responses":{"200":{"description":"ok","schema":{"$ref":"#/definitions/B"}}}}}},` +
		`"definitions":{"A":` + vDefJSON("la", kp, vRefJSON(a)) + `,"B":` + vDefJSON("lb", kp, vRefJSON(b)) + `}}`
	return w
}

// ---- family 6: every keyword position, one document: A holds nothing, B, or itself at the position ----

func vWorldKeywords() *vWorld {
	vUseURLSet(0)
	kp := vChoose(len(vKwPos), "kwpos.all")
	a := vPickRef("A", vURoot, []vTarget{{doc: vURoot, frag: "/definitions/B", single: true}, {doc: vURoot, frag: "/definitions/A", single: true}})
	w := &vWorld{root: vURoot, docs: map[string]string{}}
	w.docs[vURoot] = `{"swagger":"2.0","info":{"title":"t","version":"1"},"paths":{},` +
		`"definitions":{"A":` + vDefJSON("la", kp, vRefJSON(a)) + `,"B":{"description":"lb"}}}`
	return w
}
