package engine

import (
	"fmt"
	"go/types"
	"os"
	"sort"
	"strings"
	"sync"
	"time"

	"golang.org/x/tools/go/packages"
	"golang.org/x/tools/go/ssa"
	"golang.org/x/tools/go/ssa/ssautil"

	"verif/internal/sym"
)

// Intrinsic may handle a call natively; handled=false falls through to the SSA body.
type Intrinsic func(e *Exec, caller *frame, fn *ssa.Function, args []Value) (res Value, handled bool)

// Program: everything shared by all paths and workers (read-only after Load).
type Program struct {
	Prog         *ssa.Program
	Pkg          *ssa.Package // package under test (with harness overlay)
	Fset         interface{}
	InitSteps    int
	intrinsics   map[string]Intrinsic
	guardAware   map[string]bool // intrinsics that handle guarded values themselves
	infos        map[*ssa.Function]*fnInfo
	infoMu       sync.Mutex
	pristine     map[*ssa.Global]*Obj
	rtErrType    types.Type
	litMu        sync.Mutex
	lits         map[string]uint64
	litNames     []string
	methMu       sync.Mutex
	methCache    map[string]*ssa.Function
	fnCache      map[string]*ssa.Function
	allPkgs      map[string]*ssa.Package
	LoadTime     time.Duration
	RepoDir      string
	Extra        map[string]interface{} // model tables (json field tables, ...)
	InitProblems []string
	rtypeOnce    sync.Once
	rtypeT       types.Type
	sumOK        map[*ssa.Function]bool
	sumMu        sync.Mutex
}

// packages whose initialisers are executed (concretely) at load time
var initPkgs = map[string]bool{
	"github.com/go-openapi/spec": true, "github.com/go-openapi/jsonpointer": true, "github.com/go-openapi/jsonreference": true,
	"github.com/go-openapi/jsonreference/internal": true, "github.com/go-openapi/swag": true,
	"net/url": true, "path": true, "strings": true, "strconv": true, "unicode/utf8": true, "unicode": true,
	"sort": true, "bytes": true, "slices": true, "path/filepath": true, "math/bits": true, "internal/bytealg": true,
	"internal/stringslite": true, "unicode/utf16": true, "math": true, "cmp": true, "internal/itoa": true,
}

// packages whose state may be mutated by a path (cloned per path); all others are frozen
var mutablePkgs = map[string]bool{
	"github.com/go-openapi/spec": true, "github.com/go-openapi/jsonpointer": true, "github.com/go-openapi/jsonreference": true,
	"github.com/go-openapi/jsonreference/internal": true, "github.com/go-openapi/swag": true,
}

// RunInit executes package initialisers once; the resulting heap is the pristine package state.
func (p *Program) RunInit() {
	e := &Exec{P: p, globals: map[*ssa.Global]*Obj{}, cloneMemo: map[*Obj]*Obj{}, cloneMapMemo: map[*Map]*Map{},
		MaxSteps: 1 << 40, MaxDepth: 1000, MaxLoop: 1 << 30, inputNames: map[string]int{}, initMode: true,
		writeLog: map[*Obj]bool{}, mapWrites: map[*Map]bool{}, Ext: map[string]interface{}{}}
	func() {
		defer func() {
			if r := recover(); r != nil {
				if pe, ok := r.(pathEnd); ok {
					p.InitProblems = append(p.InitProblems, "top: "+pe.Msg)
					return
				}
				panic(r)
			}
		}()
		e.callFn(nil, p.Pkg.Func("init"), nil, nil)
	}()
	p.pristine = e.globals
	p.InitSteps = e.steps
}

// Load builds SSA for the package in dir with the harness files overlaid (build tag verif).
func Load(dir string, overlay map[string][]byte) (*Program, error) {
	t0 := time.Now()
	cfg := &packages.Config{
		Mode:       packages.LoadAllSyntax,
		Dir:        dir,
		BuildFlags: []string{"-tags=verif"},
		Overlay:    overlay,
		Env:        append(os.Environ(), "GOFLAGS=-mod=mod", "GOPROXY=off", "GOSUMDB=off", "GOTOOLCHAIN=local"),
	}
	pkgs, err := packages.Load(cfg, ".")
	if err != nil {
		return nil, err
	}
	var errs []string
	packages.Visit(pkgs, nil, func(p *packages.Package) {
		for _, e := range p.Errors {
			errs = append(errs, e.Error())
		}
	})
	if len(errs) > 0 {
		return nil, fmt.Errorf("package errors:\n%s", strings.Join(errs, "\n"))
	}
	prog, spkgs := ssautil.AllPackages(pkgs, ssa.InstantiateGenerics)
	prog.Build()
	p := &Program{Prog: prog, Pkg: spkgs[0], intrinsics: map[string]Intrinsic{}, guardAware: map[string]bool{}, infos: map[*ssa.Function]*fnInfo{},
		pristine: map[*ssa.Global]*Obj{}, lits: map[string]uint64{"": 0}, litNames: []string{""}, methCache: map[string]*ssa.Function{},
		fnCache: map[string]*ssa.Function{}, sumOK: map[*ssa.Function]bool{}, allPkgs: map[string]*ssa.Package{}, RepoDir: dir, Extra: map[string]interface{}{}}
	for _, sp := range prog.AllPackages() {
		p.allPkgs[sp.Pkg.Path()] = sp
	}
	// runtime.Error-like dynamic type for runtime panics: use the named type `error`'s
	// implementation `*errors.errorString` is not appropriate; a private marker type is enough
	// because the repo only recovers and never inspects runtime errors.
	p.rtErrType = types.NewNamed(types.NewTypeName(0, nil, "runtimeError", nil), types.Typ[types.String], nil)
	registerIntrinsics(p)
	p.RunInit()
	p.LoadTime = time.Since(t0)
	return p, nil
}

func (p *Program) litID(s string) uint64 {
	p.litMu.Lock()
	defer p.litMu.Unlock()
	if id, ok := p.lits[s]; ok {
		return id
	}
	id := uint64(len(p.litNames))
	p.lits[s] = id
	p.litNames = append(p.litNames, s)
	return id
}

// LitName returns the literal with the given opaque id, if any.
func (p *Program) LitName(id uint64) (string, bool) {
	p.litMu.Lock()
	defer p.litMu.Unlock()
	if id < uint64(len(p.litNames)) {
		return p.litNames[id], true
	}
	return "", false
}

func (p *Program) lookupMethod(t types.Type, m *types.Func) *ssa.Function {
	key := t.String() + "|" + m.Id()
	p.methMu.Lock()
	defer p.methMu.Unlock()
	if f, ok := p.methCache[key]; ok {
		return f
	}
	f := p.Prog.LookupMethod(t, m.Pkg(), m.Name())
	p.methCache[key] = f
	return f
}

func (p *Program) implements(t types.Type, iface types.Type) bool {
	it := iface.Underlying().(*types.Interface)
	return types.Implements(t, it)
}

// fnByName finds a package-level function or method by its ssa String() name,
// e.g. "net/url.Parse" or "(*net/url.URL).String".
func (p *Program) fnByName(name string) *ssa.Function {
	p.methMu.Lock()
	defer p.methMu.Unlock()
	if f, ok := p.fnCache[name]; ok {
		return f
	}
	for f := range ssautil.AllFunctions(p.Prog) {
		p.fnCache[f.String()] = f
	}
	f := p.fnCache[name]
	if f == nil {
		panic("fnByName: not found: " + name)
	}
	return f
}

func (p *Program) Func(name string) *ssa.Function { return p.Pkg.Func(name) }

// ---------- execution of one path ----------

type Witness struct {
	Harness string            `json:"harness"`
	Kind    string            `json:"kind"` // violation | known | reach
	Msg     string            `json:"msg"`
	Known   string            `json:"known_finding,omitempty"`
	Inputs  map[string]uint64 `json:"inputs"`
	Lits    map[string]string `json:"lits,omitempty"`
	Params  map[string]int    `json:"params,omitempty"`
	Order   []string          `json:"input_order"`
	Notes   []string          `json:"notes,omitempty"`
	Trace   []int32           `json:"decisions,omitempty"`
}

// KnownRegion: a recorded genuine defect (known_findings.json), identified by harness, assertion
// message and a conjunction of conditions over the harness's symbolic inputs.
type KnownRegion struct {
	ID       string          `json:"id"`
	Property string          `json:"property"`
	Harness  string          `json:"harness"` // exact name or prefix ending in *
	Message  string          `json:"message"` // substring of the assertion message
	Where    [][]interface{} `json:"where"`   // [name, op, value] with op in ==, !=, <, >= (unsigned)
	What     string          `json:"what"`
}

type Exec struct {
	P                    *Program
	Solver               *sym.Solver
	Cross                *sym.Solver
	curFr                *frame
	i2f                  map[*T]*T // float terms produced from integer JSON tokens -> the integer term
	CrossQ, CrossUnknown int
	pc                   []*T
	prefix               []int32
	trace                []int32
	alts                 [][]int32 // alternative prefixes discovered on this path

	globals      map[*ssa.Global]*Obj
	cloneMemo    map[*Obj]*Obj
	cloneMapMemo map[*Map]*Map
	objCtr       int
	steps        int
	depth        int
	MaxSteps     int
	MaxDepth     int
	MaxLoop      int

	MapOrderSymbolic bool

	inputs      []*T // symbolic input variables in creation order
	inputNames  map[string]int
	dom         map[string]*byteDom
	multiVar    map[string]bool
	pcVars      map[string]bool   // variables mentioned by some path-condition conjunct
	known       map[string]uint64 // bytes whose domain has shrunk to a single value
	DomHits     int
	ModelHits   int
	model       map[string]uint64 // an assignment known to satisfy the current pc (or nil)
	curFn       string
	onceShare   string // non-empty while the body of a shared sync.Once runs
	onceCtr     int
	tracing     bool
	events      []TraceEvent
	Traces      map[string][]TraceEvent
	atomicDepth int
	pendingAll  []*pendingIter
	NoLazyRange bool
	sub         *subCtx
	sumBad      map[*ssa.Function]bool
	NoSummaries bool
	fixed       map[string]uint64 // explicit choices (vChoose), by uniquified name
	fixedOrder  []string
	Known       []KnownRegion
	KnownHits   []*Witness
	notes       []string
	funcsSeen   map[string]bool

	// results of this path
	Obligations  int
	Discharged   int
	Violations   []*Witness
	ReachWitness *Witness
	Undischarged []string
	reachedEnd   bool
	harness      string
	initMode     bool
	freezing     bool

	// monitors
	writeLog  map[*Obj]bool
	readLog   map[*Obj]bool
	mapWrites map[*Map]bool
	monitor   bool
	Params    map[string]int
	Ext       map[string]interface{} // per-path scratch for models
}

func (e *Exec) noteWrite(o *Obj) {
	if e.monitor {
		e.writeLog[o] = true
	}
}
func (e *Exec) noteRead(o *Obj) {}
func (e *Exec) noteMapWrite(m *Map) {
	if e.monitor {
		e.mapWrites[m] = true
	}
}

var ForkStats map[string]int
var forkMu sync.Mutex

// byteDom: the set of values a symbolic byte may still take given the single-variable
// conjuncts of the path condition (a superset of the true projection of pc).
type byteDom [4]uint64

func (d *byteDom) has(v int) bool { return d[v>>6]&(1<<uint(v&63)) != 0 }
func (d *byteDom) clear(v int)    { d[v>>6] &^= 1 << uint(v&63) }

// singleByteVar returns the only variable of c if it is a single 8-bit variable.
func singleByteVar(c *T) *T {
	v := c.SingleVar()
	if v != nil && v.S.K == sym.KBV && v.S.W == 8 && c.ByteTable() != nil {
		return v
	}
	return nil
}

func (e *Exec) addPC(c *T) {
	if c.Op == "and" {
		for _, a := range c.Args {
			e.addPC(a)
		}
		return
	}
	e.pc = append(e.pc, c)
	if v := c.SingleVar(); v != nil {
		e.pcVars[v.Name] = true
	} else {
		vs := map[string]*T{}
		c.Vars(vs)
		for n := range vs {
			e.pcVars[n] = true
		}
	}
	if e.model != nil {
		if v, ok := c.Eval(e.model); !ok || v != 1 {
			e.model = nil
		}
	}
	if v := singleByteVar(c); v != nil {
		d := e.domOf(v.Name)
		tab := c.ByteTable()
		n, last := 0, 0
		for x := 0; x < 256; x++ {
			if d.has(x) && tab[x] == 0 {
				d.clear(x)
			}
			if d.has(x) {
				n++
				last = x
			}
		}
		if n == 1 {
			e.known[v.Name] = uint64(last)
		}
		return
	}
	vars := map[string]*T{}
	c.Vars(vars)
	for n := range vars {
		e.multiVar[n] = true
	}
}

// smallDomVar: a byte variable of c whose domain has at most 16 values (and is not tied to
// other bytes by a multi-variable conjunct), or nil.
func (e *Exec) smallDomVar(c *T) *T {
	vars := map[string]*T{}
	c.Vars(vars)
	var best *T
	bestN := 17
	for n, v := range vars {
		if v.S.K != sym.KBV || v.S.W != 8 || e.multiVar[n] {
			continue
		}
		if _, fixed := e.known[n]; fixed {
			continue
		}
		d := e.domOf(n)
		cnt := 0
		for x := 0; x < 256; x++ {
			if d.has(x) {
				cnt++
			}
		}
		if cnt < bestN || cnt == bestN && best != nil && n < best.Name {
			best, bestN = v, cnt
		}
	}
	return best
}

func (e *Exec) domOf(n string) *byteDom {
	d, ok := e.dom[n]
	if !ok {
		d = &byteDom{^uint64(0), ^uint64(0), ^uint64(0), ^uint64(0)}
		e.dom[n] = d
	}
	return d
}

// domCheck decides c from the byte domain alone: 1 feasible, 0 infeasible, -1 undecided.
func (e *Exec) domCheck(c *T) int {
	v := singleByteVar(c)
	if v == nil {
		return -1
	}
	d := e.domOf(v.Name)
	tab := c.ByteTable()
	any := false
	for x := 0; x < 256; x++ {
		if d.has(x) && tab[x] == 1 {
			any = true
			break
		}
	}
	if !any {
		return 0 // no value of the (over-approximated) domain satisfies c
	}
	if e.multiVar[v.Name] {
		return -1 // other conjuncts relate this byte to others: ask the solver
	}
	return 1
}

// feasible asks whether pc ∧ c is satisfiable (unknown counts as feasible).
func (e *Exec) feasible(c *T) bool {
	ok := e.feasible0(c)
	if !ok && e.Cross != nil && !c.IsFalse() {
		// a pruned branch loses paths if the verdict is wrong: the second back end re-decides every
		// "infeasible" (whether it came from the byte tables, the known-value substitution or z3)
		e.CrossQ++
		switch e.Cross.Check(e.pc, c) {
		case sym.Sat:
			e.Undischarged = append(e.Undischarged, fmt.Sprintf("branch pruned as infeasible is satisfiable according to %s (in %s)", e.Cross.Kind, e.curFn))
		case sym.Unknown:
			e.CrossUnknown++
		}
	}
	return ok
}

func (e *Exec) feasible0(c *T) bool {
	if c.IsTrue() {
		return true
	}
	if c.IsFalse() {
		return false
	}
	if len(e.known) > 0 {
		c = c.Subst(e.known)
		if c.IsConst() {
			return c.Val == 1
		}
	}
	switch e.domCheck(c) {
	case 0:
		e.DomHits++
		return false
	case 1:
		e.DomHits++
		return true
	}
	if e.model != nil {
		if v, ok := c.Eval(e.model); ok && v == 1 {
			e.ModelHits++
			return true
		}
	}
	if ForkStats != nil {
		forkMu.Lock()
		k := "QUERY " + e.curFn + " multi=" + fmt.Sprint(c.SingleVar() == nil) + " op=" + c.Op
		ForkStats[k]++
		if c.SingleVar() == nil && ForkStats[k] < 3 {
			vars := map[string]*T{}
			c.Vars(vars)
			for n := range vars {
				d := e.domOf(n)
				cnt := 0
				for x := 0; x < 256; x++ {
					if d.has(x) {
						cnt++
					}
				}
				fmt.Println("MULTIQ var", n, "dom", cnt, "multi", e.multiVar[n], "sub", e.sub != nil)
			}
			fmt.Println("MULTIQ:", c.SMT())
		}
		forkMu.Unlock()
	}
	r, m := e.Solver.CheckModel(e.pc, c, e.inputs)
	if r == sym.Sat && m != nil {
		e.model = m
	}
	return r != sym.Unsat
}

// Branch resolves a symbolic condition on this path, forking when both sides are feasible.
func (e *Exec) Branch(c *T) bool {
	if c.IsConst() {
		return c.Val == 1
	}
	if len(e.known) > 0 && e.sub == nil {
		c = c.Subst(e.known)
		if c.IsConst() {
			return c.Val == 1
		}
	}
	// a condition over several bytes with small domains: fix one of them (fork over its values)
	// and simplify, instead of asking the solver
	if c.SingleVar() == nil && e.sub == nil && c.Op != "and" && c.Op != "or" && !(c.Op == "not" && (c.Args[0].Op == "and" || c.Args[0].Op == "or")) {
		if v := e.smallDomVar(c); v != nil {
			d := e.domOf(v.Name)
			var vals []int
			for x := 0; x < 256; x++ {
				if d.has(x) {
					vals = append(vals, x)
				}
			}
			k := vals[e.Choose(len(vals), "concretise")]
			e.addPC(sym.Eq(v, sym.BVC(8, uint64(k))))
			e.known[v.Name] = uint64(k)
			return e.Branch(c)
		}
	}
	// split connectives so that path-condition conjuncts stay single-variable (decidable from
	// the byte domains without the solver)
	if c.SingleVar() == nil {
		switch c.Op {
		case "and":
			for _, a := range c.Args {
				if !e.Branch(a) {
					return false
				}
			}
			return true
		case "or":
			for _, a := range c.Args {
				if e.Branch(a) {
					return true
				}
			}
			return false
		case "not":
			if in := c.Args[0]; in.Op == "and" || in.Op == "or" {
				return !e.Branch(in)
			}
		}
	}
	if sc := e.sub; sc != nil {
		// summarisation of a pure scalar function: explore both sides syntactically
		i := len(sc.trace)
		var d int32
		if i < len(sc.prefix) {
			d = sc.prefix[i]
		} else {
			canT, canF := true, true
			if v := singleByteVar(c); v != nil {
				canT, canF = sc.split(e, v.Name, c)
			}
			switch {
			case canT && canF:
				d = 1
				sc.alts = append(sc.alts, append(append([]int32(nil), sc.trace...), 0))
			case canT:
				d = 3 // forced true within the summary (not part of the condition)
			case canF:
				d = 2
			default:
				panic(subAbort{"dead path"})
			}
		}
		sc.trace = append(sc.trace, d)
		switch d {
		case 1:
			sc.conds = append(sc.conds, c)
			sc.narrow(e, c, true)
			return true
		case 0:
			sc.conds = append(sc.conds, sym.Not(c))
			sc.narrow(e, c, false)
			return false
		case 3:
			return true
		}
		return false
	}
	i := len(e.trace)
	if i < len(e.prefix) {
		d := e.prefix[i]
		e.trace = append(e.trace, d)
		switch d {
		case 1: // forced true (implied; not asserted)
			return true
		case 0:
			return false
		case 3:
			e.addPC(c)
			return true
		case 2:
			e.addPC(sym.Not(c))
			return false
		}
		panic("bad decision in prefix")
	}
	ft := e.feasible(c)
	ff := e.feasible(sym.Not(c))
	switch {
	case ft && ff:
		if ForkStats != nil {
			forkMu.Lock()
			ForkStats[e.curFn]++
			forkMu.Unlock()
		}
		alt := append(append([]int32(nil), e.trace...), 2)
		e.alts = append(e.alts, alt)
		e.trace = append(e.trace, 3)
		e.addPC(c)
		return true
	case ft:
		e.trace = append(e.trace, 1)
		return true
	case ff:
		e.trace = append(e.trace, 0)
		return false
	}
	panic(pathEnd{Kind: "assume", Msg: "path condition became unsatisfiable"})
}

type subCtx struct {
	prefix, trace []int32
	alts          [][]int32
	conds         []*T
	objBase       int
	dom           map[string]*byteDom
}

type subAbort struct{ why string }

func (sc *subCtx) domOf(e *Exec, n string) *byteDom {
	if sc.dom == nil {
		sc.dom = map[string]*byteDom{}
	}
	d, ok := sc.dom[n]
	if !ok {
		cp := *e.domOf(n)
		d = &cp
		sc.dom[n] = d
	}
	return d
}

// split: can c be true / false for some value of the byte's current (local) domain?
func (sc *subCtx) split(e *Exec, n string, c *T) (canT, canF bool) {
	d := sc.domOf(e, n)
	tab := c.ByteTable()
	for x := 0; x < 256 && !(canT && canF); x++ {
		if !d.has(x) {
			continue
		}
		if tab[x] == 1 {
			canT = true
		} else {
			canF = true
		}
	}
	return
}

func (sc *subCtx) narrow(e *Exec, c *T, val bool) {
	v := singleByteVar(c)
	if v == nil {
		return
	}
	d := sc.domOf(e, v.Name)
	tab := c.ByteTable()
	for x := 0; x < 256; x++ {
		if d.has(x) && (tab[x] == 1) != val {
			d.clear(x)
		}
	}
}

func (e *Exec) subGuard(what string) {
	if e.sub != nil {
		panic(subAbort{what})
	}
}

func scalarType(t types.Type) bool {
	b, ok := t.Underlying().(*types.Basic)
	return ok && b.Info()&(types.IsBoolean|types.IsInteger) != 0
}

// summarisable: pure-looking scalar function with at least one symbolic argument.
func (e *Exec) summarisable(fn *ssa.Function, args []Value) bool {
	if e.sub != nil || e.initMode || e.NoSummaries || fn.Blocks == nil || len(args) == 0 {
		return false
	}
	if e.sumBad[fn] {
		return false
	}
	sig := fn.Signature
	if sig.Recv() != nil || sig.Results().Len() == 0 || len(fn.FreeVars) > 0 {
		return false
	}
	for i := 0; i < sig.Params().Len(); i++ {
		if !scalarType(sig.Params().At(i).Type()) {
			return false
		}
	}
	for i := 0; i < sig.Results().Len(); i++ {
		if !scalarType(sig.Results().At(i).Type()) {
			return false
		}
	}
	if fn.Pkg != nil && fn.Pkg == e.P.Pkg && strings.HasPrefix(fn.Name(), "v") {
		return false
	}
	anySym := false
	for _, a := range args {
		t, ok := a.(*T)
		if !ok {
			return false
		}
		if !t.IsConst() {
			anySym = true
		}
	}
	return anySym
}

// summarise executes fn on symbolic scalars along all its paths and merges the results into
// one ite-term, so that the caller does not fork (a pure callee is replaced by its summary).
func (e *Exec) summarise(caller *frame, fn *ssa.Function, args []Value) (res Value, ok bool) {
	sc := &subCtx{objBase: e.objCtr}
	e.sub = sc
	savedDepth := e.depth
	defer func() {
		e.sub = nil
		e.depth = savedDepth
		if r := recover(); r != nil {
			switch r.(type) {
			case subAbort, goPanic:
				res, ok = nil, false
				e.sumBad[fn] = true // per path: replays of this path take the same decision
			default:
				panic(r)
			}
		}
	}()
	type outcome struct {
		cond *T
		val  Value
	}
	var outs []outcome
	queue := [][]int32{nil}
	for len(queue) > 0 {
		sc.prefix = queue[len(queue)-1]
		queue = queue[:len(queue)-1]
		sc.trace, sc.alts, sc.conds, sc.dom = nil, nil, nil, nil
		v := e.callFnBody(caller, fn, args, nil)
		outs = append(outs, outcome{sym.And(sc.conds...), v})
		queue = append(queue, sc.alts...)
		if len(outs) > 96 {
			panic(subAbort{"too many paths"})
		}
	}
	merge := func(get func(o outcome) *T) *T {
		r := get(outs[len(outs)-1])
		for i := len(outs) - 2; i >= 0; i-- {
			r = sym.Ite(outs[i].cond, get(outs[i]), r)
		}
		return r
	}
	if tu, isT := outs[0].val.(Tuple); isT {
		out := make(Tuple, len(tu))
		for k := range tu {
			k := k
			out[k] = merge(func(o outcome) *T { return o.val.(Tuple)[k].(*T) })
		}
		return out, true
	}
	return merge(func(o outcome) *T { return o.val.(*T) }), true
}

// Choose returns a value in [0,n), exploring all of them.
func (e *Exec) Choose(n int, what string) int {
	if n <= 1 {
		return 0
	}
	e.subGuard("choose")
	i := len(e.trace)
	if i < len(e.prefix) {
		d := e.prefix[i]
		e.trace = append(e.trace, d)
		return int(d - 100)
	}
	for k := 1; k < n; k++ {
		alt := append(append([]int32(nil), e.trace...), int32(100+k))
		e.alts = append(e.alts, alt)
	}
	e.trace = append(e.trace, 100)
	return 0
}

// Assume restricts the path.
func (e *Exec) Assume(c *T) {
	e.subGuard("assume")
	e.effectAll()
	if c.IsTrue() {
		return
	}
	if c.IsFalse() {
		panic(pathEnd{Kind: "assume", Msg: "assumption infeasible"})
	}
	if len(e.known) > 0 {
		c = c.Subst(e.known)
		if c.IsTrue() {
			return
		}
	}
	if c.SingleVar() == nil && !c.IsConst() {
		// keep path-condition conjuncts single-variable: resolve the assumption by branching
		if !e.Branch(c) {
			panic(pathEnd{Kind: "assume", Msg: "assumption violated on this sub-path"})
		}
		return
	}
	// a disequality on a variable nothing else constrains is always satisfiable
	fresh := false
	if v := c.SingleVar(); v != nil && !e.pcVars[v.Name] && c.Op == "not" && c.Args[0].Op == "=" {
		eq := c.Args[0]
		if (eq.Args[0].Op == "var" && eq.Args[1].IsConst()) || (eq.Args[1].Op == "var" && eq.Args[0].IsConst()) {
			fresh = true
		}
	}
	if !fresh && !e.feasible(c) {
		panic(pathEnd{Kind: "assume", Msg: "assumption infeasible"})
	}
	e.addPC(c)
}

// NewInput creates a named symbolic input variable.
func (e *Exec) NewInput(name string, s sym.Sort) *T {
	e.subGuard("input")
	e.effectAll()
	n := e.inputNames[name]
	e.inputNames[name] = n + 1
	full := name
	if n > 0 {
		full = fmt.Sprintf("%s!%d", name, n)
	}
	full = sanitize(full)
	v := sym.Var(full, s)
	e.inputs = append(e.inputs, v)
	return v
}

func sanitize(s string) string {
	var sb strings.Builder
	for _, r := range s {
		if r >= 'a' && r <= 'z' || r >= 'A' && r <= 'Z' || r >= '0' && r <= '9' || r == '_' || r == '!' || r == '.' {
			sb.WriteRune(r)
		} else {
			sb.WriteByte('_')
		}
	}
	return "v_" + sb.String()
}

func (e *Exec) uniq(name string) string {
	n := e.inputNames[name]
	e.inputNames[name] = n + 1
	if n > 0 {
		name = fmt.Sprintf("%s!%d", name, n)
	}
	return sanitize(name)
}

// Fixed records an explicit (forked) choice as a pseudo input of the witness.
func (e *Exec) Fixed(name string, v uint64) {
	e.effectAll()
	full := e.uniq(name)
	e.fixed[full] = v
	e.fixedOrder = append(e.fixedOrder, full)
}

func (e *Exec) witness(kind, msg string, model map[string]uint64) *Witness {
	w := &Witness{Harness: e.harness, Kind: kind, Msg: msg, Inputs: map[string]uint64{}, Lits: map[string]string{}, Params: e.Params,
		Notes: append([]string(nil), e.notes...)}
	for _, n := range e.fixedOrder {
		w.Order = append(w.Order, n)
		w.Inputs[n] = e.fixed[n]
	}
	for _, v := range e.inputs {
		w.Order = append(w.Order, v.Name)
		w.Inputs[v.Name] = model[v.Name]
		if strings.HasSuffix(v.Name, ".ostr") || strings.Contains(v.Name, ".ostr!") {
			if lit, ok := e.P.LitName(model[v.Name]); ok {
				w.Lits[fmt.Sprint(model[v.Name])] = lit
			}
		}
	}
	return w
}

// regionTerm renders a known region as a term over this path's inputs (nil if it does not apply).
func (e *Exec) regionTerm(r KnownRegion) *T {
	cs := []*T{}
	for _, c := range r.Where {
		if len(c) != 3 {
			return nil
		}
		name, _ := c[0].(string)
		op, _ := c[1].(string)
		fv, _ := c[2].(float64)
		val := uint64(fv)
		if fx, ok := e.fixed[name]; ok {
			okc := false
			switch op {
			case "==":
				okc = fx == val
			case "!=":
				okc = fx != val
			case "<":
				okc = fx < val
			case ">=":
				okc = fx >= val
			}
			if !okc {
				return nil
			}
			continue
		}
		if strings.HasPrefix(name, "*") {
			// any input whose name ends with the suffix
			suf := name[1:]
			var alts []*T
			fixedHit := false
			for fn, fx := range e.fixed {
				if strings.HasSuffix(fn, suf) && ((op == "==" && fx == val) || (op == "!=" && fx != val)) {
					fixedHit = true
				}
			}
			if fixedHit {
				continue
			}
			for _, in := range e.inputs {
				if !strings.HasSuffix(in.Name, suf) && !strings.Contains(in.Name, suf+"!") {
					continue
				}
				var k *T
				if in.S.K == sym.KBool {
					k = sym.BoolC(val != 0)
				} else {
					k = sym.BVC(in.S.W, val)
				}
				switch op {
				case "==":
					alts = append(alts, sym.Eq(in, k))
				case "!=":
					alts = append(alts, sym.Neq(in, k))
				}
			}
			if len(alts) == 0 {
				return nil
			}
			cs = append(cs, sym.Or(alts...))
			continue
		}
		var v *T
		for _, in := range e.inputs {
			if in.Name == name {
				v = in
			}
		}
		if v == nil {
			return nil
		}
		var k *T
		if v.S.K == sym.KBool {
			k = sym.BoolC(val != 0)
		} else {
			k = sym.BVC(v.S.W, val)
		}
		switch op {
		case "==":
			cs = append(cs, sym.Eq(v, k))
		case "!=":
			cs = append(cs, sym.Neq(v, k))
		case "<":
			cs = append(cs, sym.ULt(v, k))
		case ">=":
			cs = append(cs, sym.Not(sym.ULt(v, k)))
		default:
			return nil
		}
	}
	return sym.And(cs...)
}

func (e *Exec) regionsFor(msg string) (ids []KnownRegion, terms []*T) {
	for _, r := range e.Known {
		if r.Harness != e.harness && !(strings.HasSuffix(r.Harness, "*") && strings.HasPrefix(e.harness, strings.TrimSuffix(r.Harness, "*"))) {
			continue
		}
		if !strings.Contains(msg, r.Message) {
			continue
		}
		if t := e.regionTerm(r); t != nil {
			ids = append(ids, r)
			terms = append(terms, t)
		}
	}
	return
}

var (
	kfAudit     = os.Getenv("GOSYM_KFAUDIT") != ""
	kfAuditMu   sync.Mutex
	KFExclusive = map[string]int{}
	KFHits      = map[string]int{}
)

// fail decides whether bad (the negated obligation) is satisfiable on this path, outside and
// inside the known-finding regions. Returns: new violation found, solver verdict unknown.
func (e *Exec) fail(bad *T, msg string) (violated bool, unknown bool) {
	regs, terms := e.regionsFor(msg)
	outside := bad
	for _, t := range terms {
		outside = sym.And(outside, sym.Not(t))
	}
	r, model := e.Solver.CheckModel(e.pc, outside, e.inputs)
	if e.Cross != nil {
		// the same obligation, decided again by an independent back end
		r2 := e.Cross.Check(e.pc, outside)
		e.CrossQ++
		switch {
		case r2 == sym.Unknown:
			e.CrossUnknown++
		case r != sym.Unknown && r2 != r:
			e.Undischarged = append(e.Undischarged, fmt.Sprintf("solvers disagree (%s: %v, %s: %v): %s", e.Solver.Kind, r, e.Cross.Kind, r2, msg))
		}
	}
	switch r {
	case sym.Sat:
		e.Violations = append(e.Violations, e.witness("violation", msg, model))
		violated = true
	case sym.Unknown:
		unknown = true
	}
	for i, t := range terms {
		r, model := e.Solver.CheckModel(e.pc, sym.And(bad, t), e.inputs)
		if r == sym.Sat {
			w := e.witness("known", msg, model)
			w.Known = regs[i].ID
			e.KnownHits = append(e.KnownHits, w)
			violated = true
			if kfAudit {
				// is this finding ever the only explanation? (audit of the known-findings file)
				excl := sym.And(bad, t)
				for j, u := range terms {
					if j != i {
						excl = sym.And(excl, sym.Not(u))
					}
				}
				if e.Solver.Check(e.pc, excl) == sym.Sat {
					kfAuditMu.Lock()
					KFExclusive[regs[i].ID]++
					kfAuditMu.Unlock()
				}
				kfAuditMu.Lock()
				KFHits[regs[i].ID]++
				kfAuditMu.Unlock()
			}
		} else if r == sym.Unknown {
			unknown = true
		}
	}
	return
}

// Assert records an obligation: pc ⇒ c. A satisfiable negation is a candidate violation.
func (e *Exec) Assert(c *T, msg string) {
	e.subGuard("assert")
	e.effectAll()
	e.Obligations++
	if c.IsTrue() {
		e.Discharged++
		return
	}
	violated, unknown := e.fail(sym.Not(c), msg)
	switch {
	case unknown:
		e.Undischarged = append(e.Undischarged, "solver unknown: "+msg)
	case !violated:
		e.Discharged++
	}
	if violated {
		// continue under the assumption that the assertion held (find independent failures)
		if e.feasible(c) {
			e.addPC(c)
		} else {
			panic(pathEnd{Kind: "done", Msg: "assertion fails on the whole path"})
		}
	}
}

// PathResult summarises one explored path.
type PathResult struct {
	Prefix               []int32
	Alts                 [][]int32
	End                  string // done | assume | unsupported | bound | panic
	Msg                  string
	Steps                int
	Obligations          int
	Discharged           int
	Violations           []*Witness
	Reach                *Witness
	Undischarged         []string
	Funcs                map[string]bool
	PanicMsg             string
	KnownHits            []*Witness
	Traces               map[string][]TraceEvent
	CrossQ, CrossUnknown int
}

// Harness options
type Opts struct {
	MaxSteps, MaxDepth, MaxLoop int
	MapOrderSymbolic            bool
	WantReach                   bool
	Params                      map[string]int
	Known                       []KnownRegion
	BoundIsViolation            bool
	StopAfterViol               int         // stop exploring a harness after this many candidate violations (0 = never)
	CrossKind                   string      // second back end that re-decides every obligation ("" = none)
	cross                       *sym.Solver // per worker
}

// RunPath executes harness fn along the given decision prefix.
func RunPath(p *Program, solver *sym.Solver, fn *ssa.Function, prefix []int32, o Opts) (res *PathResult) {
	e := &Exec{P: p, Solver: solver, Cross: o.cross, prefix: prefix, globals: map[*ssa.Global]*Obj{}, cloneMemo: map[*Obj]*Obj{}, cloneMapMemo: map[*Map]*Map{},
		MaxSteps: o.MaxSteps, MaxDepth: o.MaxDepth, MaxLoop: o.MaxLoop, MapOrderSymbolic: o.MapOrderSymbolic, inputNames: map[string]int{},
		funcsSeen: map[string]bool{}, harness: fn.Name(), fixed: map[string]uint64{}, Known: o.Known, dom: map[string]*byteDom{}, multiVar: map[string]bool{}, known: map[string]uint64{}, pcVars: map[string]bool{}, sumBad: map[*ssa.Function]bool{}, writeLog: map[*Obj]bool{}, mapWrites: map[*Map]bool{}, Params: o.Params, Ext: map[string]interface{}{}}
	res = &PathResult{Prefix: prefix}
	defer func() {
		r := recover()
		res.Alts = e.alts
		res.Steps = e.steps
		res.Obligations = e.Obligations
		res.Discharged = e.Discharged
		res.Violations = e.Violations
		res.Undischarged = e.Undischarged
		res.CrossQ, res.CrossUnknown = e.CrossQ, e.CrossUnknown
		res.Funcs = e.funcsSeen
		defer func() { res.KnownHits = e.KnownHits; res.Obligations = e.Obligations; res.Traces = e.Traces }()
		switch x := r.(type) {
		case nil:
			res.End = "done"
			if o.WantReach {
				rr, model := e.Solver.CheckModel(e.pc, nil, e.inputs)
				if rr == sym.Sat {
					res.Reach = e.witness("reach", "end of harness reached", model)
				}
			}
		case pathEnd:
			res.End, res.Msg = x.Kind, x.Msg
			if x.Kind == "bound" && o.BoundIsViolation {
				// termination is the property: exceeding the work bound is a candidate violation
				e.Obligations++
				e.pendingAll = nil
				_, unknown := e.fail(sym.True, "no result within the work bound (possible non-termination)")
				res.Violations = e.Violations
				if unknown {
					res.Undischarged = append(res.Undischarged, "bound exceeded on a path of undecided feasibility")
				}
				res.End = "nonterm"
			}
			if x.Kind == "unsupported" && len(e.notes) > 0 && os.Getenv("GOSYM_NOTES") != "" {
				res.Msg += " notes=" + strings.Join(e.notes, ";")
			}
		case goPanic:
			// an interpreted panic escaping the harness: the harness decides via vNoPanic wrappers;
			// an uncaught one is a candidate violation ("never panics").
			res.End = "panic"
			res.PanicMsg = showVal(x.V)
			if x.RT != "" {
				res.PanicMsg = "runtime error: " + x.RT
			}
			e.Obligations++
			_, unknown := e.fail(sym.True, "uncaught panic: "+res.PanicMsg)
			res.Violations = e.Violations
			if unknown {
				res.Undischarged = append(res.Undischarged, "panic path with undecided feasibility: "+res.PanicMsg)
			}
		case engineBug:
			res.End = "unsupported"
			st := x.Stack
			if len(st) > 4 {
				st = st[:4]
			}
			res.Msg = "ENGINE BUG: " + x.Err + " in " + strings.Join(st, " <- ")
		default:
			res.End = "unsupported"
			res.Msg = fmt.Sprintf("ENGINE BUG (top): %v", r)
		}
	}()
	e.callFn(nil, fn, nil, nil)
	e.reachedEnd = true
	return res
}

// ---------- exploration ----------

type Stats struct {
	Paths                int
	ByEnd                map[string]int
	Steps                int64
	Obligations          int
	Discharged           int
	Violations           []*Witness
	KnownHits            []*Witness
	Traces               map[string][][]TraceEvent // distinct traces per name
	traceSeen            map[string]bool
	Reach                []*Witness
	Undischarged         []string
	Unsupported          map[string]int
	BoundMsgs            map[string]int
	Funcs                map[string]bool
	Queries              int
	SolverTime           time.Duration
	SolverErrors         []string
	Wall                 time.Duration
	PathLimitHit         bool
	StoppedEarly         bool // exploration stopped after Opts.StopAfterViol candidate violations
	NViol, NKnown        int  // exact counts (Violations / KnownHits keep at most 8 witnesses per message / finding)
	keep                 map[string]int
	CrossQ, CrossUnknown int
	CrossTime            time.Duration
}

// Explore runs the harness over all decision prefixes with nWorkers workers.
func Explore(p *Program, harness string, o Opts, nWorkers int, solverKind string, timeoutMs int, maxPaths int) (*Stats, error) {
	fn := p.Pkg.Func(harness)
	if fn == nil {
		return nil, fmt.Errorf("harness %s not found", harness)
	}
	t0 := time.Now()
	st := &Stats{ByEnd: map[string]int{}, Unsupported: map[string]int{}, BoundMsgs: map[string]int{}, Funcs: map[string]bool{}}
	var mu sync.Mutex
	cond := sync.NewCond(&mu)
	queue := [][]int32{nil}
	active := 0
	var wg sync.WaitGroup
	var firstErr error
	for w := 0; w < nWorkers; w++ {
		wg.Add(1)
		go func() {
			defer wg.Done()
			solver, err := sym.NewSolver(solverKind, timeoutMs)
			if err != nil {
				mu.Lock()
				firstErr = err
				mu.Unlock()
				return
			}
			defer solver.Close()
			var cross *sym.Solver
			if o.CrossKind != "" {
				cross, err = sym.NewSolver(o.CrossKind, timeoutMs)
				if err != nil {
					mu.Lock()
					firstErr = err
					mu.Unlock()
					return
				}
				defer cross.Close()
				if f := os.Getenv("GOSYM_CROSSLOG"); f != "" {
					if fh, err := os.Create(fmt.Sprintf("%s.%p", f, cross)); err == nil {
						cross.Log = fh
						defer fh.Close()
					}
				}
			}
			for {
				mu.Lock()
				for len(queue) == 0 && active > 0 {
					cond.Wait()
				}
				if o.StopAfterViol > 0 && st.NViol >= o.StopAfterViol && len(queue) > 0 {
					// enough candidate violations: the rest of the exploration would only add to them
					st.StoppedEarly = true
					queue = nil
				}
				if len(queue) == 0 || (maxPaths > 0 && st.Paths >= maxPaths) {
					if len(queue) > 0 {
						st.PathLimitHit = true
						queue = nil
					}
					mu.Unlock()
					cond.Broadcast()
					break
				}
				// DFS order: take the most recent prefix
				pre := queue[len(queue)-1]
				queue = queue[:len(queue)-1]
				active++
				wantReach := o.WantReach && len(st.Reach) < 3
				mu.Unlock()
				oo := o
				oo.WantReach = wantReach
				oo.cross = cross
				res := RunPath(p, solver, fn, pre, oo)
				mu.Lock()
				active--
				queue = append(queue, res.Alts...)
				st.Paths++
				st.ByEnd[res.End]++
				st.Steps += int64(res.Steps)
				st.Obligations += res.Obligations
				st.Discharged += res.Discharged
				st.CrossQ += res.CrossQ
				st.CrossUnknown += res.CrossUnknown
				// witnesses are retained up to a small number per message / finding (memory); counts are exact
				if st.keep == nil {
					st.keep = map[string]int{}
				}
				for _, v := range res.Violations {
					st.NViol++
					if k := "v|" + v.Msg; st.keep[k] < 8 {
						st.keep[k]++
						st.Violations = append(st.Violations, v)
					}
				}
				for _, v := range res.KnownHits {
					st.NKnown++
					if k := "k|" + v.Known; st.keep[k] < 8 {
						st.keep[k]++
						st.KnownHits = append(st.KnownHits, v)
					}
				}
				for tn, tr := range res.Traces {
					key := tn + "|" + fmt.Sprint(tr)
					if st.traceSeen == nil {
						st.traceSeen = map[string]bool{}
						st.Traces = map[string][][]TraceEvent{}
					}
					if !st.traceSeen[key] {
						st.traceSeen[key] = true
						st.Traces[tn] = append(st.Traces[tn], tr)
					}
				}
				st.Undischarged = append(st.Undischarged, res.Undischarged...)
				if res.Reach != nil && len(st.Reach) < 3 {
					st.Reach = append(st.Reach, res.Reach)
				}
				if res.End == "unsupported" {
					st.Unsupported[res.Msg]++
				}
				if res.End == "bound" {
					st.BoundMsgs[res.Msg]++
				}
				for f := range res.Funcs {
					st.Funcs[f] = true
				}
				mu.Unlock()
				cond.Broadcast()
			}
			mu.Lock()
			st.Queries += solver.Queries
			st.SolverTime += solver.Time
			st.SolverErrors = append(st.SolverErrors, solver.Errors...)
			if cross != nil {
				st.CrossTime += cross.Time
				st.SolverErrors = append(st.SolverErrors, cross.Errors...)
			}
			mu.Unlock()
		}()
	}
	wg.Wait()
	st.Wall = time.Since(t0)
	sort.Strings(st.Undischarged)
	return st, firstErr
}
