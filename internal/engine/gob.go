package engine

import (
	"go/types"

	"golang.org/x/tools/go/ssa"

	"verif/internal/sym"
)

// M-gob: encoding/gob as a transmit function on heap values (rules probed against the real
// library by the calibration test; see DESIGN §2.7).

type GobMsg struct {
	T types.Type
	V Value // the value as it arrives in a zero-valued target of type T
}
type GobBlob struct{ Msgs []*GobMsg }

type gobCodec struct{ buf Ptr }

func (e *Exec) gobRegistered(t types.Type) bool {
	switch u := t.(type) {
	case *types.Basic:
		return true
	case *types.Slice:
		if b, ok := u.Elem().(*types.Basic); ok {
			_ = b
			return true // []string, []int, []byte ... are pre-registered
		}
	}
	e.P.methMu.Lock()
	defer e.P.methMu.Unlock()
	regs, _ := e.P.Extra["gobreg"].([]types.Type)
	for _, r := range regs {
		if types.Identical(r, t) {
			return true
		}
	}
	return false
}

type gobErr struct{ msg string }

func (e *Exec) isZeroScalar(v Value, t types.Type) *T {
	switch x := v.(type) {
	case *T:
		if x.S.K == sym.KBool {
			return sym.Not(x)
		}
		if isFloat(t) {
			return sym.FPIsZero(x) // gob omits a float f when f == 0 (both zeros)
		}
		return sym.Eq(x, sym.BVC(x.S.W, 0))
	case Str:
		if x.Op != nil {
			return sym.Eq(x.Op, sym.BVC(64, 0))
		}
		return sym.BoolC(x.Len() == 0)
	}
	return sym.False
}

// gobTransmit returns the value as received by a zero target.
func (e *Exec) gobTransmit(v Value, t types.Type) Value {
	// GobEncoder
	if _, isIface := t.Underlying().(*types.Interface); !isIface {
		if m := e.P.methodOf(t, "GobEncode"); m != nil && m.Signature.Params().Len() == 0 {
			if _, isPtr := t.Underlying().(*types.Pointer); !isPtr {
				res := e.callFn(nil, m, []Value{v}, nil).(Tuple)
				if res[1].(Iface).T != nil {
					panic(gobErr{"GobEncode error"})
				}
				nz := e.alloc(t, "gob.recv")
				dm := e.P.methodOf(types.NewPointer(t), "GobDecode")
				if dm == nil {
					panic(gobErr{"type has GobEncode but no GobDecode"})
				}
				r := e.callFn(nil, dm, []Value{nz, res[0]}, nil).(Iface)
				if r.T != nil {
					panic(gobErr{"GobDecode error: " + e.fmtVal(r, 'v')})
				}
				return e.load(nz)
			}
		}
	}
	switch u := t.Underlying().(type) {
	case *types.Basic:
		return v
	case *types.Pointer:
		p := v.(Ptr)
		if p.Obj == nil {
			return Ptr{}
		}
		el := e.load(Ptr{Obj: p.Obj, Path: p.Path})
		tv := e.gobTransmit(el, u.Elem())
		no := e.newObj(u.Elem(), tv, "gob.ptr")
		g := guardT(p.Guard)
		switch u.Elem().Underlying().(type) {
		case *types.Basic:
			g = sym.And(g, sym.Not(e.isZeroScalar(el, u.Elem()))) // pointer to a zero scalar is not sent: arrives nil
		case *types.Slice:
			if s := tv.(Slice); s.Obj == nil {
				return Ptr{}
			}
		}
		if g.IsFalse() {
			return Ptr{}
		}
		if g.IsTrue() {
			return Ptr{Obj: no}
		}
		return Ptr{Obj: no, Guard: g}
	case *types.Struct:
		sv := v.(*Struct)
		f := make([]Value, len(sv.F))
		for i := range f {
			fld := u.Field(i)
			if !fld.Exported() {
				f[i] = e.zero(fld.Type())
				continue
			}
			f[i] = e.gobTransmit(sv.F[i], fld.Type())
		}
		return &Struct{F: f}
	case *types.Slice:
		s := v.(Slice)
		if s.Abs != nil {
			return s // []byte payload travels unchanged
		}
		if s.Obj == nil || s.Len == 0 {
			return Slice{} // empty slices are not sent
		}
		no := e.newArrObj(u.Elem(), s.Len, "gob.slice")
		for i := 0; i < s.Len; i++ {
			no.Elems[i] = e.gobTransmit(s.Obj.Elems[s.Off+i], u.Elem())
		}
		return Slice{Obj: no, Len: s.Len, Cap: s.Len, Guard: s.Guard} // a guarded slice stays guarded (no fork)
	case *types.Array:
		a := v.(*Array)
		el := make([]Value, len(a.E))
		for i := range el {
			el[i] = e.gobTransmit(a.E[i], u.Elem())
		}
		return &Array{E: el}
	case *types.Map:
		m := v.(MapRef)
		if m.M == nil {
			return MapRef{}
		}
		nm := e.newMap(u)
		for _, en := range m.M.Entries {
			if en.Deleted {
				continue
			}
			ne := &MapEntry{K: en.K, V: e.gobTransmit(en.V, u.Elem()), Guard: en.Guard}
			if ck, ok := concKey(en.K); ok {
				nm.idx[ck] = len(nm.Entries)
			}
			nm.Entries = append(nm.Entries, ne)
		}
		return MapRef{M: nm, Guard: m.Guard}
	case *types.Interface:
		i := v.(Iface)
		if i.T == nil {
			return Iface{}
		}
		if !e.gobRegistered(i.T) {
			if i.Guard != nil && !e.Branch(i.Guard) {
				return Iface{}
			}
			panic(gobErr{"gob: type not registered for interface: " + i.T.String()})
		}
		return Iface{T: i.T, V: e.gobTransmit(i.V, i.T), Guard: i.Guard}
	}
	e.unsupported("gob transmit of %v", t)
	return nil
}

func registerGob(p *Program) {
	reg := func(name string, f func(e *Exec, a []Value) Value) {
		p.intrinsics[name] = func(e *Exec, _ *frame, _ *ssa.Function, a []Value) (Value, bool) { return f(e, a), true }
	}
	reg("encoding/gob.Register", func(e *Exec, a []Value) Value {
		i := a[0].(Iface)
		if i.T != nil {
			e.P.methMu.Lock()
			regs, _ := e.P.Extra["gobreg"].([]types.Type)
			e.P.Extra["gobreg"] = append(regs, i.T)
			e.P.methMu.Unlock()
		}
		return nil
	})
	mk := func(kind string) func(e *Exec, a []Value) Value {
		return func(e *Exec, a []Value) Value {
			w := a[0].(Iface)
			bp, ok := w.V.(Ptr)
			if !ok || w.T == nil || w.T.String() != "*bytes.Buffer" {
				e.unsupported("gob codec on a writer/reader other than *bytes.Buffer")
			}
			o := e.newObj(nil, Native{X: &gobCodec{buf: bp}}, "gob."+kind)
			return Ptr{Obj: o}
		}
	}
	reg("encoding/gob.NewEncoder", mk("enc"))
	reg("encoding/gob.NewDecoder", mk("dec"))
	reg("(*encoding/gob.Encoder).Encode", func(e *Exec, a []Value) (res Value) {
		defer func() {
			if r := recover(); r != nil {
				if ge, ok := r.(gobErr); ok {
					res = e.mkError(ge.msg)
					return
				}
				panic(r)
			}
		}()
		c := e.load(a[0].(Ptr)).(Native).X.(*gobCodec)
		v := a[1].(Iface)
		if v.T == nil {
			return e.mkError("gob: cannot encode nil value")
		}
		t, val := v.T, v.V
		for {
			pt, ok := t.Underlying().(*types.Pointer)
			if !ok {
				break
			}
			// GobEncoder on the pointer type itself is handled by gobTransmit on the element
			pp := e.derefCheck(val.(Ptr))
			val = e.load(pp)
			t = pt.Elem()
		}
		tv := e.gobTransmit(val, t)
		b := e.bufOf(c.buf)
		b.gob = append(b.gob, &GobMsg{T: t, V: tv})
		return Iface{}
	})
	reg("(*encoding/gob.Decoder).Decode", func(e *Exec, a []Value) Value {
		c := e.load(a[0].(Ptr)).(Native).X.(*gobCodec)
		v := a[1].(Iface)
		b := e.bufOf(c.buf)
		if b.read >= len(b.gob) {
			return e.mkError("EOF")
		}
		msg := b.gob[b.read]
		b.read++
		if v.T == nil {
			return Iface{}
		}
		pt, ok := v.T.Underlying().(*types.Pointer)
		if !ok {
			return e.mkError("gob: attempt to decode into a non-pointer")
		}
		t := pt.Elem()
		p := v.V.(Ptr)
		for {
			ppt, ok := t.Underlying().(*types.Pointer)
			if !ok {
				break
			}
			cur := e.load(p).(Ptr)
			if cur.Obj == nil {
				cur = e.alloc(ppt.Elem(), "gob.new")
				e.store(p, cur)
			}
			p, t = cur, ppt.Elem()
		}
		if !types.Identical(t, msg.T) {
			e.unsupported("gob decode into a different type (%v from %v)", t, msg.T)
		}
		e.store(p, msg.V)
		return Iface{}
	})
}
