package engine

import (
	"fmt"
	"go/constant"
	"go/token"
	"go/types"
	"math"
	"strings"

	"golang.org/x/tools/go/ssa"

	"verif/internal/sym"
)

// pathEnd terminates the current path (it is not an interpreted Go panic).
type pathEnd struct {
	Kind string // assume | unsupported | bound | done
	Msg  string
}

// goPanic is an interpreted Go panic travelling up the interpreted stack.
type goPanic struct {
	V  Value  // the panic value (an Iface)
	RT string // non-empty for runtime errors
}

type engineBug struct {
	Err   string
	Stack []string
}

func (b engineBug) Error() string { return b.Err + "\n  in " + strings.Join(b.Stack, "\n  <- ") }

type deferred struct {
	fn   Value
	args []Value
	site ssa.Instruction
}

type fnInfo struct {
	idx map[ssa.Value]int
	n   int
}

type frame struct {
	e         *Exec
	caller    *frame
	fn        *ssa.Function
	block     *ssa.BasicBlock
	prev      *ssa.BasicBlock
	locals    []Value
	info      *fnInfo
	env       []Value
	defers    []*deferred
	result    Value
	panicking bool
	panicVal  interface{}
	loopCnt   map[*ssa.BasicBlock]int
	pendings  []*pendingIter
}

// pendingIter: a map-range iteration whose entry is present only under a symbolic guard and
// whose body is being executed speculatively (no fork unless the body turns out to matter).
type pendingIter struct {
	fr      *frame
	in      *ssa.Next
	guard   *T
	locals  []Value
	prev    *ssa.BasicBlock
	ndefers int
	objBase int
	depth   int
}

type rollback struct{ p *pendingIter }

func (fr *frame) pendingFor(in *ssa.Next) *pendingIter {
	for _, p := range fr.pendings {
		if p.in == in {
			return p
		}
	}
	return nil
}

func (e *Exec) startPending(fr *frame, in *ssa.Next, g *T) {
	p := &pendingIter{fr: fr, in: in, guard: g, locals: append([]Value(nil), fr.locals...), prev: fr.prev, ndefers: len(fr.defers), objBase: e.objCtr, depth: e.depth}
	fr.pendings = append(fr.pendings, p)
	e.pendingAll = append(e.pendingAll, p)
}

func (e *Exec) dropPending(p *pendingIter) {
	fr := p.fr
	for i, q := range fr.pendings {
		if q == p {
			fr.pendings = append(fr.pendings[:i:i], fr.pendings[i+1:]...)
			break
		}
	}
	for i, q := range e.pendingAll {
		if q == p {
			e.pendingAll = append(e.pendingAll[:i:i], e.pendingAll[i+1:]...)
			break
		}
	}
}

// resolvePending decides the presence of a speculated entry: present -> commit, absent -> roll back.
func (e *Exec) resolvePending(p *pendingIter) {
	// drop first so that the Branch below (a path-condition update) is not seen as an effect again
	e.dropPending(p)
	if e.Branch(p.guard) {
		return
	}
	// everything speculated after p is discarded with it
	for i, q := range e.pendingAll {
		_ = i
		if q.objBase >= p.objBase && q != p {
			e.dropPending(q)
		}
	}
	panic(rollback{p})
}

// effectOn: a write to an object or map with the given allocation id is about to happen.
func (e *Exec) effectOn(id int) {
	for len(e.pendingAll) > 0 {
		var hit *pendingIter
		for _, p := range e.pendingAll {
			if id <= p.objBase {
				hit = p
				break
			}
		}
		if hit == nil {
			return
		}
		e.resolvePending(hit)
	}
}

// effectAll: an externally visible action (assertion, new input, return from the speculating frame).
func (e *Exec) effectAll() {
	for len(e.pendingAll) > 0 {
		e.resolvePending(e.pendingAll[0])
	}
}

func sameVal(a, b Value) bool {
	switch x := a.(type) {
	case nil:
		return b == nil
	case *T:
		y, ok := b.(*T)
		return ok && (x == y || x.IsConst() && y.IsConst() && x.S == y.S && x.Val == y.Val)
	case Str:
		y, ok := b.(Str)
		if !ok {
			return false
		}
		if x.Concrete() && y.Concrete() {
			return x.S == y.S
		}
		if x.Op != nil || y.Op != nil {
			return x.Op == y.Op
		}
		if len(x.B) != len(y.B) {
			return false
		}
		for i := range x.B {
			if x.B[i] != y.B[i] {
				return false
			}
		}
		return true
	case Ptr:
		y, ok := b.(Ptr)
		return ok && x.Obj == y.Obj && pathEq(x.Path, y.Path) && x.Guard == y.Guard
	case Slice:
		y, ok := b.(Slice)
		return ok && x.Obj == y.Obj && x.Off == y.Off && x.Len == y.Len && x.Cap == y.Cap && x.Abs == y.Abs && x.Guard == y.Guard
	case MapRef:
		y, ok := b.(MapRef)
		return ok && x.M == y.M && x.Guard == y.Guard
	case *Struct:
		y, ok := b.(*Struct)
		if !ok {
			return false
		}
		if x == y {
			return true
		}
		if len(x.F) != len(y.F) {
			return false
		}
		for i := range x.F {
			if !sameVal(x.F[i], y.F[i]) {
				return false
			}
		}
		return true
	case Iface:
		y, ok := b.(Iface)
		if !ok {
			return false
		}
		if x.T == nil || y.T == nil {
			return x.T == nil && y.T == nil
		}
		return types.Identical(x.T, y.T) && sameVal(x.V, y.V) && x.Guard == y.Guard
	case *Closure:
		y, ok := b.(*Closure)
		return ok && x == y
	case Tuple:
		y, ok := b.(Tuple)
		if !ok || len(x) != len(y) {
			return false
		}
		for i := range x {
			if !sameVal(x[i], y[i]) {
				return false
			}
		}
		return true
	}
	return false
}

// finishPending: the speculative body came back to its Next instruction without any effect.
// If the loop-carried values (phis of the header) are what they were, presence is unobservable.
func (e *Exec) finishPending(fr *frame, p *pendingIter) {
	same := true
	for _, instr := range p.in.Block().Instrs {
		phi, ok := instr.(*ssa.Phi)
		if !ok {
			continue
		}
		i := fr.info.idx[phi]
		if !sameVal(fr.locals[i], p.locals[i]) {
			same = false
			break
		}
	}
	if same {
		e.dropPending(p)
		return
	}
	e.resolvePending(p)
}

func (e *Exec) unsupported(format string, a ...interface{}) {
	panic(pathEnd{Kind: "unsupported", Msg: fmt.Sprintf(format, a...)})
}

func (e *Exec) rtPanic(msg string) {
	panic(goPanic{V: Iface{T: e.P.rtErrType, V: Str{S: msg}}, RT: msg})
}

func (e *Exec) info(fn *ssa.Function) *fnInfo {
	e.P.infoMu.Lock()
	defer e.P.infoMu.Unlock()
	if fi, ok := e.P.infos[fn]; ok {
		return fi
	}
	fi := &fnInfo{idx: map[ssa.Value]int{}}
	add := func(v ssa.Value) {
		fi.idx[v] = fi.n
		fi.n++
	}
	for _, p := range fn.Params {
		add(p)
	}
	for _, fv := range fn.FreeVars {
		add(fv)
	}
	for _, b := range fn.Blocks {
		for _, in := range b.Instrs {
			if v, ok := in.(ssa.Value); ok {
				add(v)
			}
		}
	}
	e.P.infos[fn] = fi
	return fi
}

func (fr *frame) get(v ssa.Value) Value {
	switch x := v.(type) {
	case *ssa.Const:
		return fr.e.constVal(x)
	case *ssa.Global:
		return Ptr{Obj: fr.e.global(x)}
	case *ssa.Function:
		return &Closure{Fn: x}
	case *ssa.Builtin:
		return x
	}
	i, ok := fr.info.idx[v]
	if !ok {
		panic(fmt.Sprintf("get: no slot for %s in %s", v.Name(), fr.fn))
	}
	return fr.locals[i]
}

func (fr *frame) set(v ssa.Value, val Value) {
	fr.locals[fr.info.idx[v]] = val
}

func (e *Exec) constVal(c *ssa.Const) Value {
	t := c.Type()
	if c.Value == nil {
		return e.zero(t)
	}
	if tp, ok := t.(*types.TypeParam); ok {
		_ = tp
		e.unsupported("const of type param")
	}
	switch u := t.Underlying().(type) {
	case *types.Basic:
		switch {
		case u.Info()&types.IsBoolean != 0:
			return sym.BoolC(constant.BoolVal(c.Value))
		case u.Info()&types.IsString != 0:
			return Str{S: constant.StringVal(c.Value)}
		case u.Info()&types.IsInteger != 0:
			w := widthOf(u)
			if u.Info()&types.IsUnsigned != 0 {
				return sym.BVC(w, c.Uint64())
			}
			return sym.BVC(w, uint64(c.Int64()))
		case u.Info()&types.IsFloat != 0:
			f := c.Float64()
			if widthOf(u) == 32 {
				return sym.BVC(32, uint64(math.Float32bits(float32(f))))
			}
			return sym.BVC(64, math.Float64bits(f))
		}
	}
	e.unsupported("const %v of type %v", c, t)
	return nil
}

// ---------- memory ----------

func (e *Exec) newObj(t types.Type, v Value, tag string) *Obj {
	e.objCtr++
	if e.freezing {
		tag = "frozen:" + tag
	}
	o := &Obj{V: v, ID: e.objCtr, Typ: t, Tag: tag}
	if e.onceShare != "" {
		// allocated by the body of a shared sync.Once: the value is published to every goroutine
		e.onceCtr++
		o.SharedID = fmt.Sprintf("%s#%d", e.onceShare, e.onceCtr)
	}
	return o
}

func (e *Exec) newArrObj(elem types.Type, n int, tag string) *Obj {
	e.objCtr++
	if e.freezing {
		tag = "frozen:" + tag
	}
	o := &Obj{Arr: true, ID: e.objCtr, Typ: elem, Tag: tag, Elems: make([]Value, n)}
	if e.onceShare != "" {
		e.onceCtr++
		o.SharedID = fmt.Sprintf("%s#%d", e.onceShare, e.onceCtr)
	}
	if n > 0 {
		z := e.zero(elem)
		for i := range o.Elems {
			o.Elems[i] = z
		}
	}
	return o
}

func (e *Exec) alloc(t types.Type, tag string) Ptr {
	if at, ok := t.Underlying().(*types.Array); ok {
		return Ptr{Obj: e.newArrObj(at.Elem(), int(at.Len()), tag)}
	}
	return Ptr{Obj: e.newObj(t, e.zero(t), tag)}
}

// derefCheck forks on a guarded pointer / panics on nil.
func (e *Exec) derefCheck(p Ptr) Ptr {
	if p.Obj == nil {
		e.rtPanic("invalid memory address or nil pointer dereference")
	}
	if p.Guard != nil {
		if !e.Branch(p.Guard) {
			e.rtPanic("invalid memory address or nil pointer dereference")
		}
		p.Guard = nil
	}
	return p
}

func (e *Exec) load(p Ptr) Value {
	p = e.derefCheck(p)
	if e.tracing {
		e.traceAccess("R", p.Obj, p.Path)
	}
	path := p.Path
	var v Value
	if p.Obj.Arr {
		if len(path) == 0 {
			return &Array{E: append([]Value(nil), p.Obj.Elems...)}
		}
		if path[0] < 0 || path[0] >= len(p.Obj.Elems) {
			e.rtPanic("index out of range")
		}
		v = p.Obj.Elems[path[0]]
		path = path[1:]
	} else {
		v = p.Obj.V
	}
	for _, i := range path {
		switch x := v.(type) {
		case *Struct:
			v = x.F[i]
		case *Array:
			v = x.E[i]
		default:
			panic(fmt.Sprintf("load: bad path step into %T", v))
		}
	}
	return v
}

func updatePath(v Value, path []int, nv Value) Value {
	if len(path) == 0 {
		return nv
	}
	switch x := v.(type) {
	case *Struct:
		f := append([]Value(nil), x.F...)
		f[path[0]] = updatePath(f[path[0]], path[1:], nv)
		return &Struct{F: f}
	case *Array:
		el := append([]Value(nil), x.E...)
		el[path[0]] = updatePath(el[path[0]], path[1:], nv)
		return &Array{E: el}
	}
	panic(fmt.Sprintf("store: bad path step into %T", v))
}

func (e *Exec) store(p Ptr, nv Value) {
	p = e.derefCheck(p)
	e.noteWrite(p.Obj)
	if e.tracing {
		e.traceAccess("W", p.Obj, p.Path)
	}
	e.effectOn(p.Obj.ID)
	if e.sub != nil && p.Obj.ID <= e.sub.objBase {
		panic(subAbort{"store to outer object"})
	}
	if !e.initMode && p.Obj.Frozen() {
		e.unsupported("store to frozen package state %s", p.Obj.Tag)
	}
	path := p.Path
	if p.Obj.Arr {
		if len(path) == 0 {
			a := nv.(*Array)
			copy(p.Obj.Elems, a.E)
			return
		}
		p.Obj.Elems[path[0]] = updatePath(p.Obj.Elems[path[0]], path[1:], nv)
		return
	}
	p.Obj.V = updatePath(p.Obj.V, path, nv)
}

func appendPath(p []int, i int) []int {
	np := make([]int, len(p)+1)
	copy(np, p)
	np[len(p)] = i
	return np
}

// ---------- globals ----------

func (e *Exec) global(g *ssa.Global) *Obj {
	if o, ok := e.globals[g]; ok {
		return o
	}
	t := g.Type().(*types.Pointer).Elem()
	var o *Obj
	if init, ok := e.P.pristine[g]; ok {
		o = e.cloneObj(init)
	} else {
		saved := e.freezing
		if e.initMode {
			e.freezing = g.Pkg != nil && !mutablePkgs[g.Pkg.Pkg.Path()]
		}
		p := e.alloc(t, "global:"+g.String())
		e.freezing = saved
		o = p.Obj
		if !e.initMode {
			o.SharedID = "G:" + g.String() // a package variable the initialisers never touched: shared by all goroutines
		}
	}
	e.globals[g] = o
	return o
}

// cloneObj deep-copies an object graph from the pristine heap into this path's heap.
func (e *Exec) cloneObj(o *Obj) *Obj {
	if o == nil {
		return nil
	}
	if c, ok := e.cloneMemo[o]; ok {
		return c
	}
	if o.Frozen() {
		return o
	}
	e.objCtr++
	c := &Obj{Arr: o.Arr, ID: e.objCtr, Typ: o.Typ, Tag: o.Tag, RO: true, Origin: o}
	e.cloneMemo[o] = c
	if o.Arr {
		c.Elems = make([]Value, len(o.Elems))
		for i, v := range o.Elems {
			c.Elems[i] = e.cloneVal(v)
		}
	} else {
		c.V = e.cloneVal(o.V)
	}
	return c
}

// Frozen objects are shared between paths without copying (large read-only tables).
func (o *Obj) Frozen() bool { return strings.HasPrefix(o.Tag, "frozen:") }

func (e *Exec) cloneVal(v Value) Value {
	switch x := v.(type) {
	case Ptr:
		if x.Obj == nil {
			return x
		}
		return Ptr{Obj: e.cloneObj(x.Obj), Path: x.Path, Guard: x.Guard}
	case Slice:
		if x.Obj == nil {
			return x
		}
		x.Obj = e.cloneObj(x.Obj)
		return x
	case MapRef:
		if x.M == nil {
			return x
		}
		if x.M.Frozen {
			return x
		}
		if c, ok := e.cloneMapMemo[x.M]; ok {
			return MapRef{M: c}
		}
		e.objCtr++
		c := &Map{ID: e.objCtr, KT: x.M.KT, VT: x.M.VT, idx: map[string]int{}, Origin: x.M}
		e.cloneMapMemo[x.M] = c
		for _, en := range x.M.Entries {
			if en.Deleted {
				continue
			}
			ne := &MapEntry{K: e.cloneVal(en.K), V: e.cloneVal(en.V), Guard: en.Guard}
			if k, ok := concKey(ne.K); ok {
				c.idx[k] = len(c.Entries)
			}
			c.Entries = append(c.Entries, ne)
		}
		return MapRef{M: c}
	case *Struct:
		changed := false
		f := make([]Value, len(x.F))
		for i, fv := range x.F {
			f[i] = e.cloneVal(fv)
			if !sameRef(f[i], fv) {
				changed = true
			}
		}
		if !changed {
			return x
		}
		return &Struct{F: f}
	case *Array:
		el := make([]Value, len(x.E))
		for i, fv := range x.E {
			el[i] = e.cloneVal(fv)
		}
		return &Array{E: el}
	case Iface:
		if x.T == nil {
			return x
		}
		return Iface{T: x.T, V: e.cloneVal(x.V)}
	case *Closure:
		if x == nil || len(x.Env) == 0 {
			return x
		}
		env := make([]Value, len(x.Env))
		for i, fv := range x.Env {
			env[i] = e.cloneVal(fv)
		}
		return &Closure{Fn: x.Fn, Env: env}
	case Tuple:
		t := make(Tuple, len(x))
		for i, fv := range x {
			t[i] = e.cloneVal(fv)
		}
		return t
	}
	return v
}

func sameRef(a, b Value) bool {
	switch x := a.(type) {
	case *T:
		y, ok := b.(*T)
		return ok && x == y
	case *Struct:
		y, ok := b.(*Struct)
		return ok && x == y
	case Ptr:
		y, ok := b.(Ptr)
		return ok && x.Obj == y.Obj
	case Str:
		return true
	case Slice:
		y, ok := b.(Slice)
		return ok && x.Obj == y.Obj
	case MapRef:
		y, ok := b.(MapRef)
		return ok && x.M == y.M
	case Iface:
		y, ok := b.(Iface)
		return ok && x.T == nil && y.T == nil
	case *Closure:
		y, ok := b.(*Closure)
		return ok && x == y
	}
	return false
}

// ---------- calling ----------

func (e *Exec) callValue(caller *frame, fv Value, args []Value, site ssa.Instruction) Value {
	switch f := fv.(type) {
	case *Closure:
		if f == nil {
			e.rtPanic("call of nil function")
		}
		return e.callFn(caller, f.Fn, args, f.Env)
	case *ssa.Builtin:
		for i := range args {
			args[i] = e.res(args[i])
		}
		return e.callBuiltin(caller, f, args, site)
	}
	panic(fmt.Sprintf("callValue: %T", fv))
}

func (e *Exec) callFn(caller *frame, fn *ssa.Function, args []Value, env []Value) Value {
	name := fn.String()
	if o := fn.Origin(); o != nil {
		name = o.String()
	}
	if in, ok := e.P.intrinsics[name]; ok {
		if !e.P.guardAware[name] {
			for i := range args {
				args[i] = e.res(args[i])
			}
		}
		if r, handled := in(e, caller, fn, args); handled {
			return r
		}
	}
	if e.initMode && fn.Synthetic == "package initializer" {
		path := fn.Pkg.Pkg.Path()
		if !initPkgs[path] {
			return nil
		}
		saved := e.freezing
		e.freezing = !mutablePkgs[path]
		defer func() { e.freezing = saved }()
		// a package whose initialiser cannot be executed is left partially initialised (reported)
		defer func() {
			if r := recover(); r != nil {
				if pe, ok := r.(pathEnd); ok {
					e.P.InitProblems = append(e.P.InitProblems, path+": "+pe.Msg)
					return
				}
				if gp, ok := r.(goPanic); ok {
					e.P.InitProblems = append(e.P.InitProblems, path+": panic "+showVal(gp.V))
					return
				}
				if eb, ok := r.(engineBug); ok {
					e.P.InitProblems = append(e.P.InitProblems, path+": ENGINE "+eb.Error())
					return
				}
				panic(r)
			}
		}()
	}
	if fn.Blocks == nil {
		e.unsupported("external function %s", name)
	}
	if e.summarisable(fn, args) {
		if r, ok := e.summarise(caller, fn, args); ok {
			return r
		}
	}
	return e.callFnBody(caller, fn, args, env)
}

func (e *Exec) callFnBody(caller *frame, fn *ssa.Function, args []Value, env []Value) Value {
	name := fn.String()
	e.depth++
	if e.depth > e.MaxDepth {
		panic(pathEnd{Kind: "bound", Msg: fmt.Sprintf("call depth > %d at %s", e.MaxDepth, name)})
	}
	defer func() { e.depth-- }()
	if e.funcsSeen != nil {
		e.funcsSeen[name] = true
	}
	fi := e.info(fn)
	fr := &frame{e: e, caller: caller, fn: fn, info: fi, env: env, locals: make([]Value, fi.n)}
	for i, p := range fn.Params {
		fr.locals[fi.idx[p]] = args[i]
	}
	for i, fv := range fn.FreeVars {
		fr.locals[fi.idx[fv]] = env[i]
	}
	fr.block = fn.Blocks[0]
	for fr.block != nil {
		e.runFrame(fr)
	}
	return fr.result
}

// stackNames: names of the innermost n interpreted functions (debugging notes)
func (e *Exec) stackNames(n int) []string {
	var out []string
	for fr := e.curFr; fr != nil && len(out) < n; fr = fr.caller {
		out = append(out, fr.fn.Name())
	}
	return out
}

func (e *Exec) runFrame(fr *frame) {
	saved := e.curFr
	e.curFr = fr
	defer func() { e.curFr = saved }()
	defer func() {
		if fr.block == nil {
			return // normal return
		}
		r := recover()
		if pe, ok := r.(pathEnd); ok {
			panic(pe)
		}
		if rb, ok := r.(rollback); ok {
			if rb.p.fr != fr {
				panic(rb)
			}
			copy(fr.locals, rb.p.locals)
			fr.prev = rb.p.prev
			fr.block = rb.p.in.Block()
			fr.defers = fr.defers[:rb.p.ndefers]
			e.depth = rb.p.depth
			fr.panicking = false
			return // callFnBody re-enters runFrame at the loop header; Next then yields the following entry
		}
		if _, ok := r.(goPanic); ok && len(e.pendingAll) > 0 {
			// a panic raised inside a speculative body only exists if the entry does
			func() {
				defer func() {
					if r2 := recover(); r2 != nil {
						r = r2
					}
				}()
				e.effectAll()
			}()
			if rb, ok := r.(rollback); ok {
				if rb.p.fr != fr {
					panic(rb)
				}
				copy(fr.locals, rb.p.locals)
				fr.prev = rb.p.prev
				fr.block = rb.p.in.Block()
				fr.defers = fr.defers[:rb.p.ndefers]
				e.depth = rb.p.depth
				fr.panicking = false
				return
			}
			if pe, ok := r.(pathEnd); ok {
				panic(pe)
			}
		}
		if _, ok := r.(goPanic); !ok {
			// engine bug: propagate with the interpreted stack attached
			eb, isEB := r.(engineBug)
			if !isEB {
				eb = engineBug{Err: fmt.Sprint(r)}
			}
			eb.Stack = append(eb.Stack, fr.fn.String())
			panic(eb)
		}
		fr.panicking = true
		fr.panicVal = r
		e.runDefers(fr)
		// recovered
		fr.block = fr.fn.Recover
		if fr.block == nil {
			fr.result = e.zeroResults(fr.fn)
		}
	}()
	for {
		blk := fr.block
		if ForkStats != nil || e.tracing {
			e.curFn = fr.fn.String()
		}
	instrs:
		for _, in := range blk.Instrs {
			e.steps++
			if e.steps > e.MaxSteps {
				panic(pathEnd{Kind: "bound", Msg: fmt.Sprintf("step bound %d exceeded in %s", e.MaxSteps, fr.fn)})
			}
			switch e.visit(fr, in) {
			case kReturn:
				return
			case kJump:
				break instrs
			}
		}
	}
}

func (e *Exec) zeroResults(fn *ssa.Function) Value {
	res := fn.Signature.Results()
	switch res.Len() {
	case 0:
		return nil
	case 1:
		return e.zero(res.At(0).Type())
	}
	return e.zero(res)
}

func (e *Exec) runDefers(fr *frame) {
	for len(fr.defers) > 0 {
		d := fr.defers[len(fr.defers)-1]
		fr.defers = fr.defers[:len(fr.defers)-1]
		e.runDefer(fr, d)
	}
	if fr.panicking {
		panic(fr.panicVal)
	}
}

func (e *Exec) runDefer(fr *frame, d *deferred) {
	ok := false
	defer func() {
		if !ok {
			r := recover()
			if pe, isPE := r.(pathEnd); isPE {
				panic(pe)
			}
			if _, isGP := r.(goPanic); !isGP {
				panic(r)
			}
			fr.panicking = true
			fr.panicVal = r
		}
	}()
	e.callValue(fr, d.fn, d.args, d.site)
	ok = true
}

const (
	kNext = iota
	kReturn
	kJump
)

func (e *Exec) prepareCall(fr *frame, c *ssa.CallCommon) (Value, []Value) {
	var args []Value
	var fv Value
	if c.IsInvoke() {
		recv := fr.get(c.Value)
		ifc := e.asIface(recv)
		if ifc.T == nil {
			e.rtPanic("invalid memory address or nil pointer dereference (nil interface method call " + c.Method.Name() + ")")
		}
		m := e.P.lookupMethod(ifc.T, c.Method)
		if m == nil {
			e.unsupported("method %s not found on %v", c.Method.Name(), ifc.T)
		}
		fv = &Closure{Fn: m}
		args = append(args, ifc.V)
	} else {
		fv = fr.get(c.Value)
	}
	for _, a := range c.Args {
		args = append(args, fr.get(a))
	}
	return fv, args
}

func (e *Exec) asIface(v Value) Iface {
	switch x := v.(type) {
	case Iface:
		return e.res(x).(Iface)
	}
	panic(fmt.Sprintf("asIface: %T", v))
}

// res resolves the nil-guard of a guarded slice / map / interface / pointer by forking.
func (e *Exec) res(v Value) Value {
	switch x := v.(type) {
	case Slice:
		if x.Guard != nil {
			if e.Branch(x.Guard) {
				x.Guard = nil
				return x
			}
			return Slice{}
		}
	case MapRef:
		if x.Guard != nil {
			if e.Branch(x.Guard) {
				x.Guard = nil
				return x
			}
			return MapRef{}
		}
	case Iface:
		if x.Guard != nil {
			if e.Branch(x.Guard) {
				x.Guard = nil
				return x
			}
			return Iface{}
		}
	}
	return v
}

func (fr *frame) use(v ssa.Value) Value { return fr.e.res(fr.get(v)) }

func sliceNil(s Slice) *T {
	if s.Obj == nil && s.Abs == nil {
		return sym.True
	}
	if s.Guard != nil {
		return sym.Not(s.Guard)
	}
	return sym.False
}
func mapNil(m MapRef) *T {
	if m.M == nil {
		return sym.True
	}
	if m.Guard != nil {
		return sym.Not(m.Guard)
	}
	return sym.False
}
func ifaceNil(i Iface) *T {
	if i.T == nil {
		return sym.True
	}
	if i.Guard != nil {
		return sym.Not(i.Guard)
	}
	return sym.False
}

func (e *Exec) visit(fr *frame, instr ssa.Instruction) int {
	switch in := instr.(type) {
	case *ssa.DebugRef:
	case *ssa.UnOp:
		fr.set(in, e.unop(fr, in))
	case *ssa.BinOp:
		fr.set(in, e.binop(in.Op, in.X.Type(), fr.get(in.X), fr.get(in.Y)))
	case *ssa.Call:
		fv, args := e.prepareCall(fr, &in.Call)
		fr.set(in, e.callValue(fr, fv, args, in))
		if e.tracing {
			e.curFn = fr.fn.String()
		}
	case *ssa.ChangeInterface:
		fr.set(in, fr.get(in.X))
	case *ssa.ChangeType:
		fr.set(in, fr.get(in.X))
	case *ssa.Convert:
		fr.set(in, e.conv(in.Type(), in.X.Type(), fr.use(in.X)))
	case *ssa.MultiConvert:
		fr.set(in, e.conv(in.Type(), in.X.Type(), fr.use(in.X)))
	case *ssa.SliceToArrayPointer:
		s := fr.use(in.X).(Slice)
		fr.set(in, Ptr{Obj: s.Obj, Path: nil})
		if s.Off != 0 {
			e.unsupported("slice-to-array-pointer with offset")
		}
	case *ssa.MakeInterface:
		fr.set(in, Iface{T: in.X.Type(), V: fr.get(in.X)})
	case *ssa.Extract:
		fr.set(in, fr.get(in.Tuple).(Tuple)[in.Index])
	case *ssa.Slice:
		fr.set(in, e.sliceOp(fr, in))
	case *ssa.Return:
		for len(fr.pendings) > 0 {
			e.resolvePending(fr.pendings[0])
		}
		switch len(in.Results) {
		case 0:
		case 1:
			fr.result = fr.get(in.Results[0])
		default:
			res := make(Tuple, len(in.Results))
			for i, r := range in.Results {
				res[i] = fr.get(r)
			}
			fr.result = res
		}
		fr.block = nil
		return kReturn
	case *ssa.RunDefers:
		e.runDefers(fr)
	case *ssa.Panic:
		panic(goPanic{V: fr.get(in.X)})
	case *ssa.Send, *ssa.Go, *ssa.Select, *ssa.MakeChan:
		e.unsupported("concurrency instruction %T in %s", instr, fr.fn)
	case *ssa.Store:
		e.store(fr.get(in.Addr).(Ptr), fr.get(in.Val))
	case *ssa.If:
		succ := 1
		if e.Branch(fr.get(in.Cond).(*T)) {
			succ = 0
		}
		fr.prev, fr.block = fr.block, fr.block.Succs[succ]
		e.loopCheck(fr)
		return kJump
	case *ssa.Jump:
		fr.prev, fr.block = fr.block, fr.block.Succs[0]
		e.loopCheck(fr)
		return kJump
	case *ssa.Defer:
		fv, args := e.prepareCall(fr, &in.Call)
		fr.defers = append(fr.defers, &deferred{fn: fv, args: args, site: in})
	case *ssa.Alloc:
		t := in.Type().(*types.Pointer).Elem()
		fr.set(in, e.alloc(t, in.Comment))
	case *ssa.MakeSlice:
		n := e.concInt(fr.get(in.Len), "make len")
		c := e.concInt(fr.get(in.Cap), "make cap")
		if n < 0 || c < n {
			e.rtPanic("makeslice: len out of range")
		}
		el := in.Type().Underlying().(*types.Slice).Elem()
		fr.set(in, Slice{Obj: e.newArrObj(el, c, "makeslice"), Len: n, Cap: c})
	case *ssa.MakeMap:
		mt := in.Type().Underlying().(*types.Map)
		fr.set(in, MapRef{M: e.newMap(mt)})
	case *ssa.Range:
		fr.set(in, e.rangeIter(fr.use(in.X), in.X.Type()))
	case *ssa.Next:
		fr.set(in, e.next(fr, fr.get(in.Iter), in))
	case *ssa.FieldAddr:
		p := e.derefCheck(fr.get(in.X).(Ptr))
		fr.set(in, Ptr{Obj: p.Obj, Path: appendPath(p.Path, in.Field)})
	case *ssa.Field:
		fr.set(in, fr.get(in.X).(*Struct).F[in.Field])
	case *ssa.IndexAddr:
		fr.set(in, e.indexAddr(fr, in))
	case *ssa.Index:
		fr.set(in, e.index(fr, in))
	case *ssa.Lookup:
		fr.set(in, e.lookup(fr, in))
	case *ssa.MapUpdate:
		e.mapUpdate(fr.use(in.Map).(MapRef), fr.get(in.Key), fr.get(in.Value))
	case *ssa.TypeAssert:
		fr.set(in, e.typeAssert(fr.use(in.X), in))
	case *ssa.MakeClosure:
		var env []Value
		for _, b := range in.Bindings {
			env = append(env, fr.get(b))
		}
		fr.set(in, &Closure{Fn: in.Fn.(*ssa.Function), Env: env})
	case *ssa.Phi:
		for i, pred := range in.Block().Preds {
			if fr.prev == pred {
				fr.set(in, fr.get(in.Edges[i]))
				break
			}
		}
	default:
		e.unsupported("instruction %T", instr)
	}
	return kNext
}

func (e *Exec) loopCheck(fr *frame) {
	// back edge heuristic: target index <= source index
	if fr.block.Index > fr.prev.Index {
		return
	}
	if fr.loopCnt == nil {
		fr.loopCnt = map[*ssa.BasicBlock]int{}
	}
	fr.loopCnt[fr.block]++
	if fr.loopCnt[fr.block] > e.MaxLoop {
		panic(pathEnd{Kind: "bound", Msg: fmt.Sprintf("loop bound %d exceeded in %s", e.MaxLoop, fr.fn)})
	}
}

func (e *Exec) concInt(v Value, what string) int {
	t := v.(*T)
	if !t.IsConst() {
		e.unsupported("symbolic %s", what)
	}
	if t.S.W < 64 {
		return int(int64(t.Val<<(64-uint(t.S.W))) >> (64 - uint(t.S.W)))
	}
	return int(int64(t.Val))
}

// ---------- operators ----------

func (e *Exec) unop(fr *frame, in *ssa.UnOp) Value {
	x := fr.get(in.X)
	switch in.Op {
	case token.MUL:
		return e.load(x.(Ptr))
	case token.NOT:
		return sym.Not(x.(*T))
	case token.SUB:
		t := x.(*T)
		if isFloat(in.X.Type()) {
			if t.IsConst() {
				return sym.BVC(t.S.W, t.Val^(uint64(1)<<uint(t.S.W-1)))
			}
			return sym.BXor(t, sym.BVC(t.S.W, uint64(1)<<uint(t.S.W-1)))
		}
		return sym.Neg(t)
	case token.XOR:
		return sym.BNot(x.(*T))
	case token.ARROW:
		e.unsupported("channel receive")
	}
	panic("unop " + in.Op.String())
}

func fbin(op token.Token, a, b float64) (float64, bool) {
	switch op {
	case token.ADD:
		return a + b, true
	case token.SUB:
		return a - b, true
	case token.MUL:
		return a * b, true
	case token.QUO:
		return a / b, true
	}
	return 0, false
}

func (e *Exec) binop(op token.Token, xt types.Type, x, y Value) Value {
	switch a := x.(type) {
	case *T:
		b := y.(*T)
		if isFloat(xt) {
			return e.floatOp(op, a, b)
		}
		signed := isSigned(xt)
		if a.S.K == sym.KBool {
			switch op {
			case token.EQL:
				return sym.Eq(a, b)
			case token.NEQ:
				return sym.Neq(a, b)
			case token.LAND, token.AND:
				return sym.And(a, b)
			case token.LOR, token.OR:
				return sym.Or(a, b)
			}
			panic("bool binop " + op.String())
		}
		switch op {
		case token.SHL, token.SHR:
			// shift count may have a different width and is unsigned (or signed non-negative)
			if b.S.W != a.S.W {
				if b.S.W > a.S.W {
					// counts >= width give 0 / sign; clamp
					if b.IsConst() {
						v := b.Val
						if v > uint64(a.S.W) {
							v = uint64(a.S.W)
						}
						b = sym.BVC(a.S.W, v)
					} else {
						big := sym.Not(sym.ULt(b, sym.BVC(b.S.W, uint64(a.S.W))))
						b = sym.Ite(big, sym.BVC(a.S.W, uint64(a.S.W)), sym.Extract(b, a.S.W-1, 0))
					}
				} else {
					b = sym.ZExt(b, a.S.W)
				}
			}
			if op == token.SHL {
				return sym.Shl(a, b)
			}
			if signed {
				return sym.AShr(a, b)
			}
			return sym.LShr(a, b)
		}
		if a.S != b.S {
			panic(fmt.Sprintf("binop %s width mismatch %v %v", op, a.S, b.S))
		}
		switch op {
		case token.ADD:
			return sym.Add(a, b)
		case token.SUB:
			return sym.Sub(a, b)
		case token.MUL:
			return sym.Mul(a, b)
		case token.QUO, token.REM:
			if b.IsConst() {
				if b.Val == 0 {
					e.rtPanic("integer divide by zero")
				}
			} else if e.Branch(sym.Eq(b, sym.BVC(b.S.W, 0))) {
				e.rtPanic("integer divide by zero")
			}
			if op == token.QUO {
				if signed {
					return sym.SDiv(a, b)
				}
				return sym.UDiv(a, b)
			}
			if signed {
				return sym.SRem(a, b)
			}
			return sym.URem(a, b)
		case token.AND:
			return sym.BAnd(a, b)
		case token.OR:
			return sym.BOr(a, b)
		case token.XOR:
			return sym.BXor(a, b)
		case token.AND_NOT:
			return sym.BAnd(a, sym.BNot(b))
		case token.EQL:
			return sym.Eq(a, b)
		case token.NEQ:
			return sym.Neq(a, b)
		case token.LSS:
			if signed {
				return sym.SLt(a, b)
			}
			return sym.ULt(a, b)
		case token.LEQ:
			if signed {
				return sym.SLe(a, b)
			}
			return sym.ULe(a, b)
		case token.GTR:
			if signed {
				return sym.SLt(b, a)
			}
			return sym.ULt(b, a)
		case token.GEQ:
			if signed {
				return sym.SLe(b, a)
			}
			return sym.ULe(b, a)
		}
		panic("int binop " + op.String())
	case Str:
		return e.strBinop(op, a, y.(Str))
	}
	switch op {
	case token.EQL:
		return e.equal(xt, x, y)
	case token.NEQ:
		return sym.Not(e.equal(xt, x, y))
	}
	panic(fmt.Sprintf("binop %s on %T", op, x))
}

func (e *Exec) floatOp(op token.Token, a, b *T) Value {
	if a.IsConst() && b.IsConst() {
		var fa, fb float64
		if a.S.W == 32 {
			fa, fb = float64(math.Float32frombits(uint32(a.Val))), float64(math.Float32frombits(uint32(b.Val)))
		} else {
			fa, fb = math.Float64frombits(a.Val), math.Float64frombits(b.Val)
		}
		if r, ok := fbin(op, fa, fb); ok {
			if a.S.W == 32 {
				return sym.BVC(32, uint64(math.Float32bits(float32(r))))
			}
			return sym.BVC(64, math.Float64bits(r))
		}
		switch op {
		case token.EQL:
			return sym.BoolC(fa == fb)
		case token.NEQ:
			return sym.BoolC(fa != fb)
		case token.LSS:
			return sym.BoolC(fa < fb)
		case token.LEQ:
			return sym.BoolC(fa <= fb)
		case token.GTR:
			return sym.BoolC(fa > fb)
		case token.GEQ:
			return sym.BoolC(fa >= fb)
		}
	}
	if a.S.W != 64 {
		e.unsupported("symbolic float32 op")
	}
	switch op {
	case token.EQL:
		return sym.FPCmp("fp.eq", a, b)
	case token.NEQ:
		return sym.Not(sym.FPCmp("fp.eq", a, b))
	case token.LSS:
		return sym.FPCmp("fp.lt", a, b)
	case token.LEQ:
		return sym.FPCmp("fp.leq", a, b)
	case token.GTR:
		return sym.FPCmp("fp.gt", a, b)
	case token.GEQ:
		return sym.FPCmp("fp.geq", a, b)
	}
	e.unsupported("symbolic float arithmetic %s", op)
	return nil
}

// equal: == on non-scalar, non-string comparable values.
func (e *Exec) equal(t types.Type, x, y Value) *T {
	switch a := x.(type) {
	case *T:
		if isFloat(t) {
			return e.floatOp(token.EQL, a, y.(*T)).(*T)
		}
		return sym.Eq(a, y.(*T))
	case Str:
		return e.strEq(a, y.(Str))
	case Ptr:
		b := y.(Ptr)
		an, bn := ptrNil(a), ptrNil(b)
		if a.Obj == nil || b.Obj == nil {
			return sym.And(an, bn)
		}
		same := a.Obj == b.Obj && pathEq(a.Path, b.Path)
		if same {
			return sym.Eq(an, bn)
		}
		return sym.And(an, bn)
	case MapRef:
		b := y.(MapRef)
		if a.M == nil || b.M == nil {
			return sym.And(mapNil(a), mapNil(b))
		}
		return sym.BoolC(a.M == b.M)
	case Slice:
		b := y.(Slice)
		if a.Obj == nil && a.Abs == nil || b.Obj == nil && b.Abs == nil {
			return sym.And(sliceNil(a), sliceNil(b))
		}
		e.unsupported("slice comparison")
	case *Closure:
		b, _ := y.(*Closure)
		if a == nil || b == nil {
			return sym.BoolC(a == nil && b == nil)
		}
		e.unsupported("func comparison")
	case *Struct:
		b := y.(*Struct)
		st := t.Underlying().(*types.Struct)
		var cs []*T
		for i := range a.F {
			cs = append(cs, e.equal(st.Field(i).Type(), a.F[i], b.F[i]))
		}
		return sym.And(cs...)
	case *Array:
		b := y.(*Array)
		at := t.Underlying().(*types.Array)
		var cs []*T
		for i := range a.E {
			cs = append(cs, e.equal(at.Elem(), a.E[i], b.E[i]))
		}
		return sym.And(cs...)
	case Iface:
		b := y.(Iface)
		if a.T == nil || b.T == nil {
			return sym.And(ifaceNil(a), ifaceNil(b))
		}
		a, b = e.res(a).(Iface), e.res(b).(Iface)
		if a.T == nil || b.T == nil {
			return sym.BoolC(a.T == nil && b.T == nil)
		}
		if !types.Identical(a.T, b.T) {
			return sym.False
		}
		if !types.Comparable(a.T) {
			e.rtPanic("comparing uncomparable type " + a.T.String())
		}
		return e.equal(a.T, a.V, b.V)
	case Chan:
		return sym.BoolC(a.ID == y.(Chan).ID)
	case Native:
		b, ok := y.(Native)
		if !ok {
			return sym.False
		}
		ra, oka := a.X.(RType)
		rb, okb := b.X.(RType)
		if oka && okb {
			return sym.BoolC(types.Identical(ra.T, rb.T))
		}
		return sym.BoolC(a.X == b.X)
	}
	panic(fmt.Sprintf("equal on %T", x))
}

func ptrNil(p Ptr) *T {
	if p.Obj == nil {
		return sym.True
	}
	if p.Guard != nil {
		return sym.Not(p.Guard)
	}
	return sym.False
}

func pathEq(a, b []int) bool {
	if len(a) != len(b) {
		return false
	}
	for i := range a {
		if a[i] != b[i] {
			return false
		}
	}
	return true
}

// ---------- conversions ----------

func (e *Exec) conv(dst, src types.Type, x Value) Value {
	du, su := dst.Underlying(), src.Underlying()
	if _, ok := du.(*types.TypeParam); ok {
		e.unsupported("conversion to type parameter")
	}
	switch d := du.(type) {
	case *types.Basic:
		switch {
		case d.Info()&types.IsString != 0:
			switch s := su.(type) {
			case *types.Basic:
				if s.Info()&types.IsString != 0 {
					return x
				}
				if s.Info()&types.IsInteger != 0 {
					t := x.(*T)
					if !t.IsConst() {
						e.unsupported("symbolic rune to string")
					}
					return Str{S: string(rune(int64(t.Val)))}
				}
			case *types.Slice:
				sl := x.(Slice)
				if sl.Abs != nil {
					if jt, ok := sl.Abs.(*JText); ok {
						var sb strings.Builder
						if v := e.textValue(sl); renderJSON(v, &sb) {
							_ = jt
							return Str{S: sb.String()}
						}
					}
					e.unsupported("string(abstract JSON bytes with symbolic content)")
				}
				el := s.Elem().Underlying().(*types.Basic)
				if el.Kind() == types.Uint8 {
					bs := make([]*T, sl.Len)
					for i := 0; i < sl.Len; i++ {
						bs[i] = sl.Obj.Elems[sl.Off+i].(*T)
					}
					return StrOfBytes(bs)
				}
				// []rune
				var sb strings.Builder
				for i := 0; i < sl.Len; i++ {
					t := sl.Obj.Elems[sl.Off+i].(*T)
					if !t.IsConst() {
						e.unsupported("symbolic []rune to string")
					}
					sb.WriteRune(rune(int32(t.Val)))
				}
				return Str{S: sb.String()}
			}
		case d.Kind() == types.UnsafePointer:
			return x
		case d.Info()&types.IsInteger != 0:
			t := x.(*T)
			if isFloat(src) {
				if t.IsConst() {
					var f float64
					if t.S.W == 32 {
						f = float64(math.Float32frombits(uint32(t.Val)))
					} else {
						f = math.Float64frombits(t.Val)
					}
					if d.Info()&types.IsUnsigned != 0 {
						return sym.BVC(widthOf(d), uint64(f))
					}
					return sym.BVC(widthOf(d), uint64(int64(f)))
				}
				if t.S.W == 64 && d.Info()&types.IsUnsigned == 0 {
					return sym.FPToSBV(t, widthOf(d))
				}
				e.unsupported("symbolic float to int conversion")
			}
			if _, ok := su.(*types.Basic); ok {
				return sym.Resize(t, widthOf(d), isSigned(src))
			}
		case d.Info()&types.IsFloat != 0:
			t := x.(*T)
			if isFloat(src) {
				if t.S.W == widthOf(d) {
					return t
				}
				if t.IsConst() {
					if t.S.W == 32 {
						return sym.BVC(64, math.Float64bits(float64(math.Float32frombits(uint32(t.Val)))))
					}
					return sym.BVC(32, uint64(math.Float32bits(float32(math.Float64frombits(t.Val)))))
				}
				e.unsupported("symbolic float width conversion")
			}
			if t.IsConst() {
				var f float64
				if isSigned(src) {
					f = float64(int64(sym.SExt(t, 64).Val))
				} else {
					f = float64(t.Val)
				}
				if widthOf(d) == 32 {
					return sym.BVC(32, uint64(math.Float32bits(float32(f))))
				}
				return sym.BVC(64, math.Float64bits(f))
			}
			e.unsupported("symbolic int to float conversion")
		}
	case *types.Slice:
		if sb, ok := su.(*types.Basic); ok && sb.Info()&types.IsString != 0 {
			s := x.(Str)
			if s.Op != nil {
				e.unsupported("[]byte(opaque string)")
			}
			el := d.Elem().Underlying().(*types.Basic)
			if el.Kind() == types.Uint8 {
				n := s.Len()
				o := e.newArrObj(d.Elem(), n, "bytes-of-string")
				for i := 0; i < n; i++ {
					o.Elems[i] = s.Byte(i)
				}
				return Slice{Obj: o, Len: n, Cap: n}
			}
			if !s.Concrete() {
				e.unsupported("[]rune(symbolic string)")
			}
			rs := []rune(s.S)
			o := e.newArrObj(d.Elem(), len(rs), "runes-of-string")
			for i, r := range rs {
				o.Elems[i] = sym.BVC(32, uint64(uint32(r)))
			}
			return Slice{Obj: o, Len: len(rs), Cap: len(rs)}
		}
		return x
	case *types.Pointer:
		return x
	}
	e.unsupported("conversion %v -> %v", src, dst)
	return nil
}

// ---------- type assertions ----------

func (e *Exec) typeAssert(x Value, in *ssa.TypeAssert) Value {
	ifc := e.asIface(x)
	ok := false
	var res Value
	if types.IsInterface(in.AssertedType) {
		if ifc.T != nil && e.P.implements(ifc.T, in.AssertedType) {
			ok = true
			res = ifc
		}
	} else if ifc.T != nil && types.Identical(ifc.T, in.AssertedType) {
		ok = true
		res = ifc.V
	}
	if in.CommaOk {
		if !ok {
			res = e.zero(in.AssertedType)
		}
		return Tuple{res, sym.BoolC(ok)}
	}
	if !ok {
		have := "nil"
		if ifc.T != nil {
			have = ifc.T.String()
		}
		e.rtPanic(fmt.Sprintf("interface conversion: interface is %s, not %s", have, in.AssertedType))
	}
	return res
}
