package engine

import (
	"fmt"
	"go/types"

	"golang.org/x/tools/go/ssa"

	"verif/internal/sym"
)

const specPkg = "github.com/go-openapi/spec."

func registerIntrinsics(p *Program) {
	h := func(name string, f Intrinsic) { p.intrinsics[specPkg+name] = f }
	h("vNondetBool", func(e *Exec, _ *frame, _ *ssa.Function, a []Value) (Value, bool) {
		return e.NewInput(e.cstr(a[0]), sym.Bool), true
	})
	h("vNondetInt64", func(e *Exec, _ *frame, _ *ssa.Function, a []Value) (Value, bool) {
		return e.NewInput(e.cstr(a[0]), sym.BV(64)), true
	})
	h("vNondetInt", func(e *Exec, _ *frame, _ *ssa.Function, a []Value) (Value, bool) {
		return e.NewInput(e.cstr(a[0]), sym.BV(64)), true
	})
	h("vNondetFloat64", func(e *Exec, _ *frame, _ *ssa.Function, a []Value) (Value, bool) {
		return e.NewInput(e.cstr(a[0]), sym.BV(64)), true
	})
	h("vNondetByte", func(e *Exec, _ *frame, _ *ssa.Function, a []Value) (Value, bool) {
		return e.NewInput(e.cstr(a[0]), sym.BV(8)), true
	})
	h("vNondetOStr", func(e *Exec, _ *frame, _ *ssa.Function, a []Value) (Value, bool) {
		return Str{Op: e.NewInput(e.cstr(a[0])+".ostr", sym.BV(64))}, true
	})
	h("vNondetStr", func(e *Exec, _ *frame, _ *ssa.Function, a []Value) (Value, bool) {
		n := e.concInt(a[1], "vNondetStr length")
		name := e.cstr(a[0])
		bs := make([]*T, n)
		for i := range bs {
			bs[i] = e.NewInput(fmt.Sprintf("%s.b%d", name, i), sym.BV(8))
		}
		return StrOfBytes(bs), true
	})
	h("vAssume", func(e *Exec, _ *frame, _ *ssa.Function, a []Value) (Value, bool) {
		e.Assume(a[0].(*T))
		return nil, true
	})
	h("vAssert", func(e *Exec, _ *frame, _ *ssa.Function, a []Value) (Value, bool) {
		e.Assert(a[0].(*T), e.cstr(a[1]))
		return nil, true
	})
	h("vChoose", func(e *Exec, _ *frame, _ *ssa.Function, a []Value) (Value, bool) {
		n := e.concInt(a[0], "vChoose n")
		name := e.cstr(a[1])
		k := e.Choose(n, name)
		e.Fixed(name, uint64(k))
		return sym.BVC(64, uint64(k)), true
	})
	h("vNote", func(e *Exec, _ *frame, _ *ssa.Function, a []Value) (Value, bool) {
		if s, ok := a[0].(Str); ok && s.Concrete() {
			e.notes = append(e.notes, s.S)
		} else {
			e.notes = append(e.notes, "(symbolic text)")
		}
		return nil, true
	})
	h("vParam", func(e *Exec, _ *frame, _ *ssa.Function, a []Value) (Value, bool) {
		name := e.cstr(a[0])
		if v, ok := e.Params[name]; ok {
			return sym.BVC(64, uint64(int64(v))), true
		}
		return a[1], true
	})
	optPtr := func(s sym.Sort, t types.Type) Intrinsic {
		return func(e *Exec, _ *frame, _ *ssa.Function, a []Value) (Value, bool) {
			name := e.cstr(a[0])
			g := e.NewInput(name+".set", sym.Bool)
			v := e.NewInput(name+".val", s)
			o := e.newObj(t, v, "opt:"+name)
			return Ptr{Obj: o, Guard: g}, true
		}
	}
	h("vOptFloat64", optPtr(sym.BV(64), types.Typ[types.Float64]))
	h("vOptInt64", optPtr(sym.BV(64), types.Typ[types.Int64]))
	h("vDeepEq", func(e *Exec, _ *frame, _ *ssa.Function, a []Value) (Value, bool) {
		x, y := a[0].(Iface), a[1].(Iface)
		return e.deepEq(x, y, map[[2]*Obj]bool{}), true
	})
	h("vInSet", func(e *Exec, _ *frame, _ *ssa.Function, a []Value) (Value, bool) {
		b := a[0].(*T)
		set := e.cstr(a[1])
		var alts []*T
		for i := 0; i < len(set); i++ {
			alts = append(alts, sym.Eq(b, sym.BVC(8, uint64(set[i]))))
		}
		return sym.Or(alts...), true
	})
	h("vGetwd", func(e *Exec, _ *frame, _ *ssa.Function, a []Value) (Value, bool) { return Str{S: e.cwd()}, true })
	h("vChdir", func(e *Exec, _ *frame, _ *ssa.Function, a []Value) (Value, bool) {
		e.Ext["cwd"] = e.cstr(a[0])
		return nil, true
	})
	h("vTwoDirs", func(e *Exec, _ *frame, _ *ssa.Function, a []Value) (Value, bool) {
		return Tuple{Str{S: "/cwd/w"}, Str{S: "/cwd/v"}}, true
	})
	h("vBound", func(e *Exec, _ *frame, _ *ssa.Function, a []Value) (Value, bool) {
		if !e.Branch(a[0].(*T)) {
			panic(pathEnd{Kind: "bound", Msg: e.cstr(a[1])})
		}
		return nil, true
	})
	h("vMapOrder", func(e *Exec, _ *frame, _ *ssa.Function, a []Value) (Value, bool) {
		e.MapOrderSymbolic = a[0].(*T).Val == 1
		return nil, true
	})
	h("vUseRealMetaSchemas", func(e *Exec, _ *frame, _ *ssa.Function, a []Value) (Value, bool) {
		e.Ext["real_meta"] = true
		return nil, true
	})
	// vAssumeWhole: an assumption added to the path condition as one conjunct (one solver query, no splitting)
	h("vAssumeWhole", func(e *Exec, _ *frame, _ *ssa.Function, a []Value) (Value, bool) {
		c := a[0].(*T)
		e.effectAll()
		if c.IsTrue() {
			return nil, true
		}
		if c.IsFalse() || e.Solver.Check(e.pc, c) == sym.Unsat {
			panic(pathEnd{Kind: "assume", Msg: "assumption infeasible"})
		}
		e.addPC(c)
		return nil, true
	})
	h("vIsConcrete", func(e *Exec, _ *frame, _ *ssa.Function, a []Value) (Value, bool) {
		t, ok := a[0].(*T)
		return sym.BoolC(ok && t.IsConst()), true
	})
	registerStd(p)
}

// cstr extracts a concrete Go string from a Value.
func (e *Exec) cstr(v Value) string {
	s := v.(Str)
	if !s.Concrete() {
		e.unsupported("concrete string expected")
	}
	return s.S
}

func (e *Exec) cwd() string {
	if d, ok := e.Ext["cwd"].(string); ok {
		return d
	}
	return "/cwd/w"
}

func (e *Exec) cstrOK(v Value) string {
	s, ok := v.(Str)
	if !ok || !s.Concrete() {
		return "\x00<symbolic>"
	}
	return s.S
}

// deepEq: reflect.DeepEqual lifted to symbolic values (result is a Bool term).
func (e *Exec) deepEq(x, y Value, seen map[[2]*Obj]bool) *T {
	x, y = e.res(x), e.res(y)
	switch a := x.(type) {
	case *T:
		b, ok := y.(*T)
		if !ok || a.S != b.S {
			return sym.False
		}
		return sym.Eq(a, b)
	case Str:
		b, ok := y.(Str)
		if !ok {
			return sym.False
		}
		return e.strEq(a, b)
	case Iface:
		b, ok := y.(Iface)
		if !ok {
			return sym.False
		}
		if a.T == nil || b.T == nil {
			return sym.BoolC(a.T == nil && b.T == nil)
		}
		if !types.Identical(a.T, b.T) {
			return sym.False
		}
		return e.deepEq(a.V, b.V, seen)
	case Ptr:
		b, ok := y.(Ptr)
		if !ok {
			return sym.False
		}
		an, bn := ptrNil(a), ptrNil(b)
		if a.Obj == nil || b.Obj == nil {
			return sym.And(an, bn)
		}
		if a.Obj == b.Obj && pathEq(a.Path, b.Path) {
			return sym.Eq(an, bn)
		}
		key := [2]*Obj{a.Obj, b.Obj}
		if seen[key] {
			return sym.Eq(an, bn)
		}
		seen[key] = true
		av := e.load(Ptr{Obj: a.Obj, Path: a.Path})
		bv := e.load(Ptr{Obj: b.Obj, Path: b.Path})
		return sym.And(sym.Eq(an, bn), sym.Or(an, e.deepEq(av, bv, seen)))
	case *Struct:
		b, ok := y.(*Struct)
		if !ok || len(a.F) != len(b.F) {
			return sym.False
		}
		var cs []*T
		for i := range a.F {
			cs = append(cs, e.deepEq(a.F[i], b.F[i], seen))
		}
		return sym.And(cs...)
	case *Array:
		b, ok := y.(*Array)
		if !ok || len(a.E) != len(b.E) {
			return sym.False
		}
		var cs []*T
		for i := range a.E {
			cs = append(cs, e.deepEq(a.E[i], b.E[i], seen))
		}
		return sym.And(cs...)
	case Slice:
		b, ok := y.(Slice)
		if !ok {
			return sym.False
		}
		if (a.Obj == nil) != (b.Obj == nil) || a.Len != b.Len {
			return sym.False
		}
		var cs []*T
		for i := 0; i < a.Len; i++ {
			cs = append(cs, e.deepEq(a.Obj.Elems[a.Off+i], b.Obj.Elems[b.Off+i], seen))
		}
		return sym.And(cs...)
	case MapRef:
		b, ok := y.(MapRef)
		if !ok {
			return sym.False
		}
		if a.M == b.M {
			return sym.True
		}
		if a.M == nil || b.M == nil {
			return sym.False
		}
		// concrete-key maps without guards only
		var cs []*T
		na, nb := 0, 0
		for _, en := range b.M.Entries {
			if !en.Deleted {
				nb++
				if en.Guard != nil {
					e.unsupported("deepEq on guarded map")
				}
			}
		}
		for _, en := range a.M.Entries {
			if en.Deleted {
				continue
			}
			if en.Guard != nil {
				e.unsupported("deepEq on guarded map")
			}
			na++
			ck, okc := concKey(en.K)
			if !okc {
				e.unsupported("deepEq on symbolic-key map")
			}
			j, has := b.M.idx[ck]
			if !has || b.M.Entries[j].Deleted {
				return sym.False
			}
			cs = append(cs, e.deepEq(en.V, b.M.Entries[j].V, seen))
		}
		if na != nb {
			return sym.False
		}
		return sym.And(cs...)
	case *Closure:
		b, _ := y.(*Closure)
		return sym.BoolC(a == nil && b == nil)
	case nil:
		return sym.BoolC(y == nil)
	}
	e.unsupported("deepEq on %T", x)
	return nil
}
