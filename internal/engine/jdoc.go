package engine

import (
	"golang.org/x/tools/go/ssa"

	"verif/internal/sym"
)

// Harness-side construction of symbolic JSON documents (vJ values). A vJ is a one-field struct
// whose field holds a Native{JVal}; harness code only passes them around.

func jOf(v Value) JVal      { return v.(*Struct).F[0].(Native).X.(JVal) }
func mkJ(j JVal) Value      { return &Struct{F: []Value{Native{X: j}}} }

func registerJDoc(p *Program) {
	h := func(name string, f func(e *Exec, a []Value) Value) {
		p.intrinsics[specPkg+name] = func(e *Exec, _ *frame, _ *ssa.Function, a []Value) (Value, bool) { return f(e, a), true }
	}
	h("vJObj", func(e *Exec, a []Value) Value { return mkJ(&JObj{}) })
	h("vJAdd", func(e *Exec, a []Value) Value {
		o := jOf(a[0]).(*JObj)
		g := a[1].(*T)
		if g.IsFalse() {
			return nil
		}
		m := JMember{K: a[2].(Str), V: jOf(a[3])}
		if !g.IsTrue() {
			m.G = g
		}
		o.M = append(o.M, m)
		return nil
	})
	h("vJArr", func(e *Exec, a []Value) Value {
		s := a[0].(Slice)
		arr := &JArr{E: []JVal{}}
		for i := 0; i < s.Len; i++ {
			arr.E = append(arr.E, jOf(s.Obj.Elems[s.Off+i]))
		}
		return mkJ(arr)
	})
	h("vJStr", func(e *Exec, a []Value) Value { return mkJ(JStr{S: a[0].(Str)}) })
	h("vJBool", func(e *Exec, a []Value) Value { return mkJ(JBool{B: a[0].(*T)}) })
	h("vJNull", func(e *Exec, a []Value) Value { return mkJ(JNull{}) })
	h("vJInt", func(e *Exec, a []Value) Value {
		// an integer literal; its float view is derived on demand (floatView: exact for |i| <= 2^53)
		i := a[0].(*T)
		n := JNum{I: i}
		if i.IsConst() {
			n.F = sym.BVC(64, mathFloat64bits(float64(int64(i.Val))))
		}
		return mkJ(n)
	})
	h("vJFloat", func(e *Exec, a []Value) Value { return mkJ(JNum{F: a[0].(*T)}) })
	h("vJBytes", func(e *Exec, a []Value) Value { return absSlice(jOf(a[0])) })
	// vFinite(f): f is neither NaN nor an infinity (exponent bits not all ones)
	h("vFinite", func(e *Exec, a []Value) Value {
		f := a[0].(*T)
		return sym.Not(sym.Eq(sym.Extract(f, 62, 52), sym.BVC(11, 0x7ff)))
	})
}
