package engine

import (
	"bytes"
	"encoding/json"
	"fmt"
	"go/types"
	"os"
	"reflect"
	"sort"
	"strings"
	"unicode/utf8"

	"golang.org/x/tools/go/ssa"

	"verif/internal/sym"
)

// M-json: encoding/json as a contract model over abstract JSON values. Struct field sets,
// names and omitempty come from the struct declarations in /repo's current source (go/types);
// the repo's MarshalJSON / UnmarshalJSON bodies are executed from SSA.

type JVal interface{}
type JNull struct{}
type JBool struct{ B *T }
type JNum struct{ I, F *T } // I: value as int64 (if known), F: IEEE bits as float64 (if known)
type JStr struct{ S Str }
type JArr struct{ E []JVal }
type JMember struct {
	K Str
	V JVal
	G *T // present iff G (nil = always)
}
type JObj struct{ M []JMember }

// JBad: a text that is not valid JSON (or whose validity the model cannot establish: Maybe).
type JBad struct {
	Why   string
	Maybe bool
}

type RopePiece struct {
	B Str  // literal / raw bytes
	V JVal // embedded value (when non-nil)
}

// JText is the abstract content of a []byte that holds JSON.
type JText struct {
	V    JVal
	Rope []RopePiece // non-nil: text assembled by hand; parsed on demand
}

func absSlice(v JVal) Slice { return Slice{Abs: &JText{V: v}} }

func guardT(g *T) *T {
	if g == nil {
		return sym.True
	}
	return g
}

// ---------- parsing concrete JSON text ----------

func parseConcrete(data []byte) (JVal, error) {
	dec := json.NewDecoder(bytes.NewReader(data))
	dec.UseNumber()
	v, err := parseTok(dec)
	if err != nil {
		return nil, err
	}
	if _, err := dec.Token(); err == nil {
		return nil, fmt.Errorf("trailing data")
	}
	if !json.Valid(data) {
		return nil, fmt.Errorf("invalid JSON")
	}
	return v, nil
}

func parseTok(dec *json.Decoder) (JVal, error) {
	tok, err := dec.Token()
	if err != nil {
		return nil, err
	}
	switch t := tok.(type) {
	case json.Delim:
		switch t {
		case '{':
			o := &JObj{}
			for dec.More() {
				kt, err := dec.Token()
				if err != nil {
					return nil, err
				}
				k, ok := kt.(string)
				if !ok {
					return nil, fmt.Errorf("bad key")
				}
				v, err := parseTok(dec)
				if err != nil {
					return nil, err
				}
				o.M = append(o.M, JMember{K: Str{S: k}, V: v})
			}
			if _, err := dec.Token(); err != nil {
				return nil, err
			}
			return o, nil
		case '[':
			a := &JArr{E: []JVal{}}
			for dec.More() {
				v, err := parseTok(dec)
				if err != nil {
					return nil, err
				}
				a.E = append(a.E, v)
			}
			if _, err := dec.Token(); err != nil {
				return nil, err
			}
			return a, nil
		}
		return nil, fmt.Errorf("unexpected delimiter")
	case string:
		return JStr{S: Str{S: t}}, nil
	case bool:
		return JBool{B: sym.BoolC(t)}, nil
	case nil:
		return JNull{}, nil
	case json.Number:
		n := JNum{}
		if f, err := t.Float64(); err == nil {
			n.F = sym.BVC(64, mathFloat64bits(f))
		} else {
			return nil, err
		}
		if i, err := t.Int64(); err == nil {
			n.I = sym.BVC(64, uint64(i))
		}
		return n, nil
	}
	return nil, fmt.Errorf("unexpected token %T", tok)
}

// ---------- field tables (encoding/json's typeFields) ----------

type jfield struct {
	name      string
	tagged    bool
	index     []int
	typ       types.Type
	omitEmpty bool
	quoted    bool
}

func tagGet(tag, key string) string { return reflect.StructTag(tag).Get(key) }

func isValidTag(s string) bool {
	if s == "" {
		return false
	}
	for _, c := range s {
		switch {
		case strings.ContainsRune("!#$%&()*+-./:;<=>?@[]^_{|}~ ", c):
		case !(c >= 'a' && c <= 'z' || c >= 'A' && c <= 'Z' || c >= '0' && c <= '9' || c > 127):
			return false
		}
	}
	return true
}

func (p *Program) typeFields(t types.Type) []jfield {
	key := "jf:" + t.String()
	p.methMu.Lock()
	if f, ok := p.Extra[key]; ok {
		p.methMu.Unlock()
		return f.([]jfield)
	}
	p.methMu.Unlock()
	type ent struct {
		typ   types.Type
		index []int
	}
	var fields []jfield
	next := []ent{{typ: t}}
	count := map[string]int{}
	nextCount := map[string]int{}
	visited := map[string]bool{}
	for len(next) > 0 {
		current := next
		next = nil
		count, nextCount = nextCount, map[string]int{}
		for _, f := range current {
			ts := f.typ.String()
			if visited[ts] {
				continue
			}
			visited[ts] = true
			st, ok := f.typ.Underlying().(*types.Struct)
			if !ok {
				continue
			}
			for i := 0; i < st.NumFields(); i++ {
				sf := st.Field(i)
				if sf.Embedded() {
					tt := sf.Type()
					if pt, ok := tt.Underlying().(*types.Pointer); ok {
						tt = pt.Elem()
					}
					if _, isStruct := tt.Underlying().(*types.Struct); !sf.Exported() && !isStruct {
						continue
					}
				} else if !sf.Exported() {
					continue
				}
				tag := tagGet(st.Tag(i), "json")
				if tag == "-" {
					continue
				}
				name, opts, _ := strings.Cut(tag, ",")
				if !isValidTag(name) {
					name = ""
				}
				index := append(append([]int(nil), f.index...), i)
				ft := sf.Type()
				if _, named := ft.(*types.Named); !named {
					if pt, ok := ft.Underlying().(*types.Pointer); ok {
						ft = pt.Elem()
					}
				}
				hasOpt := func(o string) bool {
					for _, x := range strings.Split(opts, ",") {
						if x == o {
							return true
						}
					}
					return false
				}
				quoted := false
				if hasOpt("string") {
					if b, ok := ft.Underlying().(*types.Basic); ok && b.Info()&(types.IsBoolean|types.IsNumeric|types.IsString) != 0 {
						quoted = true
					}
				}
				_, ftStruct := ft.Underlying().(*types.Struct)
				if name != "" || !sf.Embedded() || !ftStruct {
					tagged := name != ""
					if name == "" {
						name = sf.Name()
					}
					fld := jfield{name: name, tagged: tagged, index: index, typ: sf.Type(), omitEmpty: hasOpt("omitempty"), quoted: quoted}
					fields = append(fields, fld)
					if count[ts] > 1 {
						fields = append(fields, fld)
					}
					continue
				}
				fts := ft.String()
				nextCount[fts]++
				if nextCount[fts] == 1 {
					next = append(next, ent{typ: ft, index: index})
				}
			}
		}
	}
	sort.SliceStable(fields, func(i, j int) bool {
		x, y := fields[i], fields[j]
		if x.name != y.name {
			return x.name < y.name
		}
		if len(x.index) != len(y.index) {
			return len(x.index) < len(y.index)
		}
		if x.tagged != y.tagged {
			return x.tagged
		}
		return lessIndex(x.index, y.index)
	})
	out := fields[:0:0]
	for advance, i := 0, 0; i < len(fields); i += advance {
		fi := fields[i]
		name := fi.name
		for advance = 1; i+advance < len(fields); advance++ {
			if fields[i+advance].name != name {
				break
			}
		}
		if advance == 1 {
			out = append(out, fi)
			continue
		}
		grp := fields[i : i+advance]
		if len(grp) > 1 && len(grp[0].index) == len(grp[1].index) && grp[0].tagged == grp[1].tagged {
			continue // annihilated
		}
		out = append(out, grp[0])
	}
	sort.SliceStable(out, func(i, j int) bool { return lessIndex(out[i].index, out[j].index) })
	p.methMu.Lock()
	p.Extra[key] = out
	p.methMu.Unlock()
	return out
}

func lessIndex(a, b []int) bool {
	for k := range a {
		if k >= len(b) {
			return false
		}
		if a[k] != b[k] {
			return a[k] < b[k]
		}
	}
	return len(a) < len(b)
}

// ---------- method lookup helpers ----------

func (p *Program) methodOf(t types.Type, name string) *ssa.Function {
	ms := p.Prog.MethodSets.MethodSet(t)
	sel := ms.Lookup(nil, name)
	if sel == nil {
		return nil
	}
	return p.Prog.MethodValue(sel)
}

func isMarshalJSON(f *ssa.Function) bool {
	if f == nil {
		return false
	}
	sg := f.Signature
	return sg.Params().Len() == 0 && sg.Results().Len() == 2
}
func isUnmarshalJSON(f *ssa.Function) bool {
	if f == nil {
		return false
	}
	sg := f.Signature
	return sg.Params().Len() == 1 && sg.Results().Len() == 1
}

// ---------- errors ----------

func (e *Exec) mkError(msg string) Iface {
	et := e.P.allPkgs["errors"].Pkg.Scope().Lookup("errorString").Type()
	o := e.newObj(et, &Struct{F: []Value{Str{S: msg}}}, "error")
	return Iface{T: types.NewPointer(et), V: Ptr{Obj: o}}
}

type jsonErr struct{ msg string }

// ---------- Marshal ----------

// jsonMarshal models json.Marshal(v).
func (e *Exec) jsonMarshal(v Iface) (res Value) {
	defer func() {
		if r := recover(); r != nil {
			if je, ok := r.(jsonErr); ok {
				res = Tuple{Slice{}, e.mkError("json: " + je.msg)}
				return
			}
			panic(r)
		}
	}()
	if v.Guard != nil {
		v = e.res(v).(Iface)
	}
	if v.T == nil {
		return Tuple{absSlice(JNull{}), Iface{}}
	}
	jv := e.encode(v.V, v.T)
	return Tuple{absSlice(jv), Iface{}}
}

// emptyCond: the condition under which a Go value is "empty" for omitempty.
func (e *Exec) emptyCond(v Value, t types.Type) *T {
	switch x := v.(type) {
	case *T:
		if x.S.K == sym.KBool {
			return sym.Not(x)
		}
		if isFloat(t) {
			return sym.FPIsZero(x)
		}
		return sym.Eq(x, sym.BVC(x.S.W, 0))
	case Str:
		if x.Op != nil {
			return sym.Eq(x.Op, sym.BVC(64, 0))
		}
		return sym.BoolC(x.Len() == 0)
	case Ptr:
		return ptrNil(x)
	case Iface:
		return ifaceNil(x)
	case Slice:
		if x.Abs != nil {
			e.unsupported("omitempty on abstract bytes")
		}
		if x.Obj == nil || x.Len == 0 {
			return sym.True
		}
		return sliceNil(x)
	case MapRef:
		if x.M == nil {
			return sym.True
		}
		var present []*T
		for _, en := range x.M.Entries {
			if !en.Deleted {
				present = append(present, guardT(en.Guard))
			}
		}
		return sym.Or(mapNil(x), sym.Not(sym.Or(present...)))
	case *Array:
		return sym.BoolC(len(x.E) == 0)
	}
	return sym.False // structs are never empty
}

func (e *Exec) encode(v Value, t types.Type) JVal {
	// Marshaler (value receiver, or pointer type holding one)
	if _, isIface := t.Underlying().(*types.Interface); !isIface {
		if m := e.P.methodOf(t, "MarshalJSON"); isMarshalJSON(m) {
			if p, ok := v.(Ptr); ok {
				if e.Branch(ptrNil(p)) {
					return JNull{}
				}
				v = Ptr{Obj: p.Obj, Path: p.Path}
			}
			if mr, ok := v.(MapRef); ok && mr.Guard != nil {
				v = e.res(mr)
			}
			if sl, ok := v.(Slice); ok && sl.Guard != nil {
				v = e.res(sl)
			}
			res := e.callFn(nil, m, []Value{v}, nil).(Tuple)
			if errI := res[1].(Iface); errI.T != nil {
				panic(jsonErr{"error calling MarshalJSON for type " + t.String() + ": " + e.fmtVal(errI, 'v')})
			}
			jv := e.textValue(res[0].(Slice))
			if bad, ok := jv.(JBad); ok {
				if bad.Maybe {
					e.unsupported("MarshalJSON output of undecidable validity: %s", bad.Why)
				}
				panic(jsonErr{"error calling MarshalJSON for type " + t.String() + ": " + bad.Why})
			}
			return jv
		}
	}
	switch u := t.Underlying().(type) {
	case *types.Basic:
		switch {
		case u.Info()&types.IsBoolean != 0:
			return JBool{B: v.(*T)}
		case u.Info()&types.IsString != 0:
			return JStr{S: e.jsonSanitize(v.(Str))}
		case u.Info()&types.IsInteger != 0:
			return JNum{I: sym.Resize(v.(*T), 64, u.Info()&types.IsUnsigned == 0)}
		case u.Info()&types.IsFloat != 0:
			x := v.(*T)
			if x.S.W != 64 {
				e.unsupported("float32 encoding")
			}
			return JNum{F: x, I: e.i2f[x]} // integer view: known when the float came from an integer token
		}
	case *types.Pointer:
		p := v.(Ptr)
		if e.Branch(ptrNil(p)) {
			return JNull{}
		}
		return e.encode(e.load(Ptr{Obj: p.Obj, Path: p.Path}), u.Elem())
	case *types.Interface:
		i := e.res(v).(Iface)
		if i.T == nil {
			return JNull{}
		}
		return e.encode(i.V, i.T)
	case *types.Struct:
		return e.encodeStruct(v.(*Struct), t)
	case *types.Map:
		mr := e.res(v).(MapRef)
		if mr.M == nil {
			return JNull{}
		}
		o := &JObj{}
		if !isString(u.Key()) {
			e.unsupported("map with non-string keys in JSON encoding")
		}
		for _, en := range mr.M.Entries {
			if en.Deleted {
				continue
			}
			o.M = append(o.M, JMember{K: e.jsonSanitize(en.K.(Str)), V: e.encode(en.V, u.Elem()), G: en.Guard})
		}
		sortMembers(o)
		return o
	case *types.Slice:
		sl := e.res(v).(Slice)
		if sl.Abs != nil {
			e.unsupported("encoding of []byte holding JSON as base64")
		}
		if sl.Obj == nil {
			return JNull{}
		}
		if b, ok := u.Elem().Underlying().(*types.Basic); ok && b.Kind() == types.Uint8 {
			e.unsupported("[]byte base64 encoding")
		}
		a := &JArr{E: []JVal{}}
		for i := 0; i < sl.Len; i++ {
			a.E = append(a.E, e.encode(sl.Obj.Elems[sl.Off+i], u.Elem()))
		}
		return a
	case *types.Array:
		a := &JArr{E: []JVal{}}
		for _, el := range v.(*Array).E {
			a.E = append(a.E, e.encode(el, u.Elem()))
		}
		return a
	}
	e.unsupported("json encode of %v", t)
	return nil
}

// sortMembers: encoding/json sorts map keys; concrete keys are sorted, a map with symbolic
// keys keeps insertion order (value-level comparisons do not depend on order).
func sortMembers(o *JObj) {
	for _, m := range o.M {
		if !m.K.Concrete() {
			return
		}
	}
	sort.SliceStable(o.M, func(i, j int) bool { return o.M[i].K.S < o.M[j].K.S })
}

func (e *Exec) fieldByIndex(v *Struct, t types.Type, index []int) (Value, types.Type, *T) {
	var cur Value = v
	ct := t
	reach := sym.True
	for k, i := range index {
		if k > 0 {
			if pt, ok := ct.Underlying().(*types.Pointer); ok {
				p := cur.(Ptr)
				if p.Obj == nil {
					return nil, nil, sym.False
				}
				reach = sym.And(reach, sym.Not(ptrNil(p)))
				cur = e.load(Ptr{Obj: p.Obj, Path: p.Path})
				ct = pt.Elem()
			}
		}
		st := ct.Underlying().(*types.Struct)
		cur = cur.(*Struct).F[i]
		ct = st.Field(i).Type()
	}
	return cur, ct, reach
}

func (e *Exec) encodeStruct(v *Struct, t types.Type) JVal {
	o := &JObj{}
	for _, f := range e.P.typeFields(t) {
		fv, ft, reach := e.fieldByIndex(v, t, f.index)
		if reach.IsFalse() {
			continue
		}
		g := reach
		if f.omitEmpty {
			g = sym.And(g, sym.Not(e.emptyCond(fv, ft)))
		}
		if g.IsFalse() {
			continue
		}
		if f.quoted {
			e.unsupported("json ,string option")
		}
		var jv JVal
		// guarded containers with omitempty: present exactly when the guard holds, then definitely non-nil
		switch x := fv.(type) {
		case Ptr:
			if x.Guard != nil && f.omitEmpty {
				fv = Ptr{Obj: x.Obj, Path: x.Path}
			}
		case Slice:
			if x.Guard != nil && f.omitEmpty {
				x.Guard = nil
				fv = x
			}
		case MapRef:
			if x.Guard != nil && f.omitEmpty {
				x.Guard = nil
				fv = x
			}
		case Iface:
			if x.Guard != nil && f.omitEmpty {
				x.Guard = nil
				fv = x
			}
		}
		skip := false
		if g.IsTrue() {
			jv = e.encode(fv, ft)
		} else {
			// a member whose presence is symbolic: an error while encoding its value counts only on the
			// paths where the member is present
			func() {
				defer func() {
					if r := recover(); r != nil {
						je, isErr := r.(jsonErr)
						if !isErr {
							panic(r)
						}
						if e.Branch(g) {
							panic(je)
						}
						skip = true
					}
				}()
				jv = e.encode(fv, ft)
			}()
		}
		if skip {
			continue
		}
		var gp *T
		if !g.IsTrue() {
			gp = g
		}
		o.M = append(o.M, JMember{K: Str{S: f.name}, V: jv, G: gp})
	}
	return o
}

// jsonSanitize: what a string looks like after a JSON encode/decode cycle (invalid UTF-8 is
// replaced by U+FFFD).
func (e *Exec) jsonSanitize(s Str) Str {
	if s.Op != nil {
		return s
	}
	if s.Concrete() {
		if utf8.ValidString(s.S) {
			return s
		}
		return Str{S: strings.ToValidUTF8(s.S, "\uFFFD")}
	}
	fn := e.P.fnByName("unicode/utf8.ValidString")
	if e.Branch(e.callFn(nil, fn, []Value{s}, nil).(*T)) {
		return s
	}
	e.unsupported("JSON encoding of a symbolic string that is not valid UTF-8")
	return s
}

// ---------- abstract byte operations ----------

func (e *Exec) jtext(s Slice) *JText {
	if jt, ok := s.Abs.(*JText); ok {
		return jt
	}
	return nil
}

// textValue: the JSON value denoted by a byte slice (abstract or concrete).
func (e *Exec) textValue(s Slice) JVal {
	if jt := e.jtext(s); jt != nil {
		if jt.V == nil {
			jt.V = e.parseRope(jt.Rope)
		}
		return jt.V
	}
	if s.Obj == nil && s.Len == 0 {
		return JBad{Why: "empty input"}
	}
	if !allConc([]Value{s}) {
		return e.parseRope(e.ropeOfBytes(e.bytesOf(s)))
	}
	v, err := parseConcrete(e.goBytes(s))
	if err != nil {
		return JBad{Why: err.Error()}
	}
	return v
}

// firstByte of the text of v.
func (e *Exec) jFirstByte(v JVal) *T {
	switch x := v.(type) {
	case *JObj:
		return sym.BVC(8, '{')
	case *JArr:
		return sym.BVC(8, '[')
	case JStr:
		return sym.BVC(8, '"')
	case JNull:
		return sym.BVC(8, 'n')
	case JBool:
		return sym.Ite(x.B, sym.BVC(8, 't'), sym.BVC(8, 'f'))
	case JNum:
		return sym.BVC(8, '1') // a digit or '-': the repo only compares with '{' and '['
	}
	e.unsupported("first byte of %T", v)
	return nil
}

func (e *Exec) absLenImpl(s Slice) Value {
	v := e.textValue(s)
	switch x := v.(type) {
	case *JObj:
		// {} has length 2; anything else is longer (exact length not modelled; the repo tests > 0, > 1, > 2, < 3)
		var present []*T
		for _, m := range x.M {
			present = append(present, guardT(m.G))
		}
		return sym.Ite(sym.Or(present...), sym.BVC(64, 7), sym.BVC(64, 2))
	case *JArr:
		if len(x.E) == 0 {
			return sym.BVC(64, 2)
		}
		return sym.BVC(64, 7)
	case JStr:
		if x.S.Concrete() && x.S.S == "" {
			return sym.BVC(64, 2)
		}
		if x.S.Op != nil {
			return sym.Ite(sym.Eq(x.S.Op, sym.BVC(64, 0)), sym.BVC(64, 2), sym.BVC(64, 7))
		}
		return sym.BVC(64, uint64(2+x.S.Len()))
	case JNull:
		return sym.BVC(64, 4)
	case JBool:
		return sym.Ite(x.B, sym.BVC(64, 4), sym.BVC(64, 5))
	case JNum:
		if e.Choose(2, "numlen") == 0 {
			return sym.BVC(64, 1)
		}
		return sym.BVC(64, 2)
	case JBad:
		e.unsupported("len of invalid JSON text")
	}
	return sym.BVC(64, 7)
}

// ---------- ropes (hand-assembled JSON text) ----------

// normaliseRope regroups hand-assembled text so that every string literal that contains symbolic bytes
// is one raw piece between two literal pieces that end / start with its quotes - whatever way the
// writer cut it (a quoting routine appends the quote, plain bytes and escape sequences one by one).
// Inside a literal a symbolic byte that may be a quote or a backslash forks the path.
func (e *Exec) normaliseRope(rope []RopePiece) []RopePiece {
	need := false
	for _, p := range rope {
		if p.V == nil && !p.B.Concrete() {
			if p.B.Op != nil {
				return rope
			}
			need = true
		}
	}
	if !need {
		return rope
	}
	var out []RopePiece
	var lit []byte
	var body []*T
	inStr, esc, symBody := false, false, false
	flush := func() {
		if len(lit) > 0 {
			out = append(out, RopePiece{B: Str{S: string(lit)}})
			lit = nil
		}
	}
	for _, p := range rope {
		if p.V != nil {
			if inStr {
				e.unsupported("embedded JSON value inside a hand-written string literal")
			}
			flush()
			out = append(out, p)
			continue
		}
		for _, t := range p.B.Bytes() {
			if !inStr {
				if !t.IsConst() {
					e.unsupported("symbolic bytes written into JSON text outside a quoted string")
				}
				c := byte(t.Val)
				lit = append(lit, c)
				if c == '"' {
					inStr, esc, symBody, body = true, false, false, nil
				}
				continue
			}
			isQuote, isBack := false, false
			switch {
			case t.IsConst():
				isQuote, isBack = byte(t.Val) == '"', byte(t.Val) == '\\'
			case esc:
				symBody = true
			default:
				symBody = true
				if e.Branch(sym.Eq(t, sym.BVC(8, '"'))) {
					isQuote, t = true, sym.BVC(8, '"')
				} else if e.Branch(sym.Eq(t, sym.BVC(8, '\\'))) {
					isBack, t = true, sym.BVC(8, '\\')
				}
			}
			switch {
			case esc:
				esc = false
				body = append(body, t)
			case isBack:
				esc = true
				body = append(body, t)
			case isQuote:
				if symBody {
					flush()
					out = append(out, RopePiece{B: StrOfBytes(body)})
				} else {
					for _, b := range body {
						lit = append(lit, byte(b.Val))
					}
				}
				lit = append(lit, '"')
				inStr = false
			default:
				body = append(body, t)
			}
		}
	}
	if inStr {
		if symBody {
			e.unsupported("unterminated hand-written string literal with symbolic bytes")
		}
		for _, b := range body {
			lit = append(lit, byte(b.Val))
		}
	}
	flush()
	return out
}

func (e *Exec) parseRope(rope []RopePiece) JVal {
	// fast path: a single embedded value
	if len(rope) == 1 && rope[0].V != nil {
		return rope[0].V
	}
	rope = e.normaliseRope(rope)
	// all literal & concrete: parse natively
	allLit := true
	for _, p := range rope {
		if p.V != nil || !p.B.Concrete() {
			allLit = false
		}
	}
	if allLit {
		var sb strings.Builder
		for _, p := range rope {
			sb.WriteString(p.B.S)
		}
		v, err := parseConcrete([]byte(sb.String()))
		if err != nil {
			return JBad{Why: err.Error()}
		}
		return v
	}
	// general: substitute placeholders for embedded values and symbolic strings, parse the
	// skeleton natively, then put the pieces back.
	var sb strings.Builder
	var vals []JVal
	var raws []Str
	for i, p := range rope {
		switch {
		case p.V != nil:
			if _, bad := p.V.(JBad); bad {
				return p.V
			}
			fmt.Fprintf(&sb, "\"\\u0001V%d\"", len(vals))
			vals = append(vals, p.V)
		case p.B.Concrete():
			sb.WriteString(p.B.S)
		default:
			// symbolic raw bytes: supported between literal quotes (a hand-written string)
			prevQ := i > 0 && rope[i-1].V == nil && rope[i-1].B.Concrete() && strings.HasSuffix(rope[i-1].B.S, "\"")
			nextQ := i+1 < len(rope) && rope[i+1].V == nil && rope[i+1].B.Concrete() && strings.HasPrefix(rope[i+1].B.S, "\"")
			if !prevQ || !nextQ {
				e.unsupported("symbolic bytes written into JSON text outside a quoted string")
			}
			fmt.Fprintf(&sb, "\\u0001R%d", len(raws))
			raws = append(raws, p.B)
		}
	}
	// decode every raw string body with the reference unquoter (executed symbolically)
	decoded := make([]Str, len(raws))
	for i, r := range raws {
		fn := e.P.Pkg.Func("vrefJSONStringBody")
		res := e.callFn(nil, fn, []Value{r}, nil).(Tuple)
		st := e.concInt(res[1], "string body status")
		switch st {
		case 0:
			decoded[i] = res[0].(Str)
		case 1:
			return JBad{Why: "invalid character in hand-written string literal"}
		default:
			if r.Len() <= 4 {
				// an unescaped quote ends the literal early; what follows cannot complete a member
				// within 4 bytes (the shortest completion `":1,"` needs 5), so the text is invalid
				return JBad{Why: "unescaped quote in hand-written string literal"}
			}
			return JBad{Why: "unescaped quote in hand-written string literal (longer than 4 bytes: validity not modelled)", Maybe: true}
		}
	}
	skel, err := parseConcrete([]byte(sb.String()))
	if err != nil {
		return JBad{Why: err.Error()}
	}
	var subst func(v JVal) JVal
	substStr := func(s string) (Str, JVal) {
		if strings.HasPrefix(s, "\u0001V") {
			var k int
			fmt.Sscanf(s, "\u0001V%d", &k)
			return Str{}, vals[k]
		}
		if i := strings.Index(s, "\u0001R"); i >= 0 {
			var k int
			fmt.Sscanf(s[i:], "\u0001R%d", &k)
			tag := fmt.Sprintf("\u0001R%d", k)
			pre, post := s[:i], s[i+len(tag):]
			return e.concat(e.concat(Str{S: pre}, decoded[k]), Str{S: post}), nil
		}
		return Str{S: s}, nil
	}
	subst = func(v JVal) JVal {
		switch x := v.(type) {
		case *JObj:
			for i := range x.M {
				k, kv := substStr(x.M[i].K.S)
				if kv != nil {
					ks, isStr := kv.(JStr)
					if !isStr {
						return JBad{Why: "object key is not a string"}
					}
					k = ks.S
				}
				x.M[i].K = k
				x.M[i].V = subst(x.M[i].V)
			}
			return x
		case *JArr:
			for i := range x.E {
				x.E[i] = subst(x.E[i])
			}
			return x
		case JStr:
			s, val := substStr(x.S.S)
			if val != nil {
				return val
			}
			return JStr{S: s}
		}
		return v
	}
	return subst(skel)
}

// ropeOfBytes splits a byte vector with symbolic bytes into literal pieces and raw string bodies:
// a string body runs from a constant quote to the next constant quote not preceded by a constant
// backslash; symbolic bytes are only supported inside such bodies.
func (e *Exec) ropeOfBytes(bs []*T) []RopePiece {
	var rope []RopePiece
	var lit []byte
	flush := func() {
		if len(lit) > 0 {
			rope = append(rope, RopePiece{B: Str{S: string(lit)}})
			lit = nil
		}
	}
	i := 0
	for i < len(bs) {
		b := bs[i]
		if !b.IsConst() {
			e.unsupported("symbolic byte outside a string literal in hand-built JSON text")
		}
		lit = append(lit, byte(b.Val))
		i++
		if byte(b.Val) != '"' {
			continue
		}
		// string body
		j := i
		symbolic := false
		for j < len(bs) {
			if bs[j].IsConst() && byte(bs[j].Val) == '"' && !(j > i && bs[j-1].IsConst() && byte(bs[j-1].Val) == '\\') {
				break
			}
			if !bs[j].IsConst() {
				symbolic = true
			}
			j++
		}
		if j >= len(bs) {
			e.unsupported("unterminated string literal in hand-built JSON text")
		}
		if symbolic {
			flush()
			rope = append(rope, RopePiece{B: StrOfBytes(bs[i:j])})
		} else {
			for k := i; k < j; k++ {
				lit = append(lit, byte(bs[k].Val))
			}
		}
		lit = append(lit, '"')
		i = j + 1
	}
	flush()
	return rope
}

// renderJSON prints a fully concrete abstract value as JSON text (encoding/json's formatting).
func renderJSON(v JVal, sb *strings.Builder) bool {
	switch x := v.(type) {
	case JNull:
		sb.WriteString("null")
	case JBool:
		if !x.B.IsConst() {
			return false
		}
		if x.B.Val == 1 {
			sb.WriteString("true")
		} else {
			sb.WriteString("false")
		}
	case JNum:
		switch {
		case x.I != nil && x.I.IsConst():
			fmt.Fprintf(sb, "%d", int64(x.I.Val))
		case x.F != nil && x.F.IsConst():
			b, err := json.Marshal(mathFloat64frombits(x.F.Val))
			if err != nil {
				return false
			}
			sb.Write(b)
		default:
			return false
		}
	case JStr:
		if !x.S.Concrete() {
			return false
		}
		b, _ := json.Marshal(x.S.S)
		sb.Write(b)
	case *JArr:
		sb.WriteByte('[')
		for i, el := range x.E {
			if i > 0 {
				sb.WriteByte(',')
			}
			if !renderJSON(el, sb) {
				return false
			}
		}
		sb.WriteByte(']')
	case *JObj:
		sb.WriteByte('{')
		first := true
		for _, m := range x.M {
			if m.G != nil {
				if m.G.IsFalse() {
					continue
				}
				if !m.G.IsTrue() {
					return false
				}
			}
			if !m.K.Concrete() {
				return false
			}
			if !first {
				sb.WriteByte(',')
			}
			first = false
			kb, _ := json.Marshal(m.K.S)
			sb.Write(kb)
			sb.WriteByte(':')
			if !renderJSON(m.V, sb) {
				return false
			}
		}
		sb.WriteByte('}')
	default:
		return false
	}
	return true
}

// ---------- ConcatJSON (M-swag) ----------

func (e *Exec) concatJSON(blobs Slice) Value {
	n := blobs.Len
	if n == 0 {
		return Slice{}
	}
	var parts []JVal
	for i := 0; i < n; i++ {
		b := e.res(blobs.Obj.Elems[blobs.Off+i]).(Slice)
		if b.Obj == nil && b.Abs == nil {
			continue // nil blob
		}
		v := e.textValue(b)
		switch x := v.(type) {
		case JNull:
			continue
		case JBad:
			e.unsupported("ConcatJSON of invalid JSON: %s", x.Why)
		}
		parts = append(parts, v)
	}
	if len(parts) == 0 {
		// all null/nil: real code returns the last blob trimmed... it returns nil or "null"
		return absSlice(JNull{})
	}
	if len(parts) == 1 {
		return absSlice(parts[0])
	}
	// containers only; empty containers (len < 3) are skipped
	isArr := false
	if _, ok := parts[0].(*JArr); ok {
		isArr = true
	}
	if isArr {
		out := &JArr{E: []JVal{}}
		for _, p := range parts {
			a, ok := p.(*JArr)
			if !ok {
				e.unsupported("ConcatJSON mixing arrays and non-arrays")
			}
			out.E = append(out.E, a.E...)
		}
		return absSlice(out)
	}
	out := &JObj{}
	for _, p := range parts {
		o, ok := p.(*JObj)
		if !ok {
			e.unsupported("ConcatJSON of a non-container value %T", p)
		}
		out.M = append(out.M, o.M...)
	}
	return absSlice(out)
}

// ---------- Unmarshal ----------

func (e *Exec) jsonUnmarshal(data Slice, target Iface) Value {
	jv := e.textValue(data)
	if bad, ok := jv.(JBad); ok {
		if bad.Maybe {
			e.unsupported("Unmarshal of text of undecidable validity")
		}
		return e.mkError("json: syntax error: " + bad.Why)
	}
	if target.T == nil {
		return e.mkError("json: Unmarshal(nil)")
	}
	pt, ok := target.T.Underlying().(*types.Pointer)
	if !ok {
		return e.mkError("json: Unmarshal(non-pointer " + target.T.String() + ")")
	}
	p := target.V.(Ptr)
	if p.Obj == nil {
		return e.mkError("json: Unmarshal(nil " + target.T.String() + ")")
	}
	d := &jdec{e: e}
	d.decode(jv, p, pt.Elem(), true)
	if d.err != "" {
		return e.mkError("json: " + d.err)
	}
	return Iface{}
}

type jdec struct {
	e   *Exec
	err string
}

func (d *jdec) saveErr(msg string) {
	if d.err == "" {
		d.err = msg
	}
}

func jkind(v JVal) string {
	switch v.(type) {
	case *JObj:
		return "object"
	case *JArr:
		return "array"
	case JStr:
		return "string"
	case JNum:
		return "number"
	case JBool:
		return "bool"
	case JNull:
		return "null"
	}
	return "?"
}

// decode stores jv into the location p of type t. top: p itself is the user's pointer target.
func (d *jdec) decode(jv JVal, p Ptr, t types.Type, addressable bool) {
	e := d.e
	_, isNull := jv.(JNull)
	// indirect: walk pointers, allocate, find an Unmarshaler
	for {
		// Unmarshaler on *T (pointer receiver) for an addressable named T
		if _, isIface := t.Underlying().(*types.Interface); !isIface {
			if _, isPtr := t.Underlying().(*types.Pointer); !isPtr {
				if m := e.P.methodOf(types.NewPointer(t), "UnmarshalJSON"); isUnmarshalJSON(m) {
					res := e.callFn(nil, m, []Value{p, absSlice(jv)}, nil).(Iface)
					if res.T != nil {
						d.saveErr("error from UnmarshalJSON of " + t.String() + ": " + e.fmtVal(res, 'v'))
					}
					return
				}
			}
		}
		switch u := t.Underlying().(type) {
		case *types.Pointer:
			cur := e.load(p).(Ptr)
			if isNull {
				e.store(p, Ptr{})
				return
			}
			if cur.Obj == nil || cur.Guard != nil && !e.Branch(cur.Guard) {
				np := e.alloc(u.Elem(), "json.new")
				e.store(p, np)
				cur = np
			}
			p = Ptr{Obj: cur.Obj, Path: cur.Path}
			t = u.Elem()
			continue
		case *types.Interface:
			cur := e.res(e.load(p)).(Iface)
			if isNull {
				e.store(p, Iface{})
				return
			}
			// a non-nil pointer inside the interface is decoded into
			if cur.T != nil {
				if pt, ok := cur.T.Underlying().(*types.Pointer); ok {
					ip := cur.V.(Ptr)
					if ip.Obj != nil {
						p, t = ip, pt.Elem()
						continue
					}
				}
			}
			if u.NumMethods() != 0 {
				d.saveErr("cannot unmarshal " + jkind(jv) + " into Go value of type " + t.String())
				return
			}
			e.store(p, d.generic(jv))
			return
		}
		break
	}
	if isNull {
		switch t.Underlying().(type) {
		case *types.Map:
			e.store(p, MapRef{})
		case *types.Slice:
			e.store(p, Slice{})
		}
		return // null has no effect on other kinds
	}
	mismatch := func() { d.saveErr("cannot unmarshal " + jkind(jv) + " into Go value of type " + t.String()) }
	switch u := t.Underlying().(type) {
	case *types.Basic:
		switch {
		case u.Info()&types.IsBoolean != 0:
			b, ok := jv.(JBool)
			if !ok {
				mismatch()
				return
			}
			e.store(p, b.B)
		case u.Info()&types.IsString != 0:
			s, ok := jv.(JStr)
			if !ok {
				mismatch()
				return
			}
			e.store(p, s.S)
		case u.Info()&types.IsInteger != 0:
			n, ok := jv.(JNum)
			if !ok {
				mismatch()
				return
			}
			if n.I == nil {
				// the literal's integer view is unknown: it may or may not be an integer in range
				if os.Getenv("GOSYM_DBGNUM") != "" && n.F != nil {
					e.notes = append(e.notes, fmt.Sprintf("F-only num decoded into int: op=%s name=%s t=%s stack=%v", n.F.Op, n.F.Name, t.String(), e.stackNames(6)))
				}
				ok := e.NewInput("json.num.isint", sym.Bool)
				if !e.Branch(ok) {
					mismatch()
					return
				}
				n.I = e.NewInput("json.num.int", sym.BV(64))
			}
			w := widthOf(u)
			if w != 64 {
				e.unsupported("decoding into %v", t)
			}
			e.store(p, n.I)
		case u.Info()&types.IsFloat != 0:
			n, ok := jv.(JNum)
			if !ok {
				mismatch()
				return
			}
			e.store(p, d.floatView(n))
		default:
			e.unsupported("json decode into %v", t)
		}
	case *types.Struct:
		o, ok := jv.(*JObj)
		if !ok {
			mismatch()
			return
		}
		d.decodeStruct(o, p, t)
	case *types.Map:
		o, ok := jv.(*JObj)
		if !ok {
			mismatch()
			return
		}
		if !isString(u.Key()) {
			e.unsupported("decode into map with non-string key")
		}
		cur := e.res(e.load(p)).(MapRef)
		if cur.M == nil {
			cur = MapRef{M: e.newMap(u)}
			e.store(p, cur)
		}
		for _, m := range o.M {
			if m.G != nil && m.G.IsFalse() {
				continue
			}
			tmp := e.alloc(u.Elem(), "json.mapelem")
			if old, ok := d.lookupConc(cur.M, m.K); ok {
				e.store(tmp, old)
			}
			d.decode(m.V, tmp, u.Elem(), true)
			d.mapSet(cur.M, m.K, e.load(tmp), m.G)
		}
	case *types.Slice:
		a, ok := jv.(*JArr)
		if !ok {
			mismatch()
			return
		}
		obj := e.newArrObj(u.Elem(), len(a.E), "json.slice")
		for i, el := range a.E {
			d.decode(el, Ptr{Obj: obj, Path: []int{i}}, u.Elem(), true)
		}
		e.store(p, Slice{Obj: obj, Len: len(a.E), Cap: len(a.E)})
	case *types.Array:
		e.unsupported("json decode into array")
	default:
		e.unsupported("json decode into %v", t)
	}
}

func (d *jdec) floatView(n JNum) *T {
	if n.F != nil {
		return n.F
	}
	if n.I != nil && n.I.IsConst() {
		return sym.BVC(64, mathFloat64bits(float64(int64(n.I.Val))))
	}
	// float view of a symbolic integer token: exact conversion for |i| <= 2^53 (larger magnitudes are
	// outside the bound: the path is cut by an assumption, recorded under "bounds")
	e := d.e
	lim := int64(1) << 53
	e.Assume(sym.And(sym.SLe(sym.BVC(64, uint64(-lim)), n.I), sym.SLe(n.I, sym.BVC(64, uint64(lim)))))
	f := i2f53(n.I)
	if e.i2f == nil {
		e.i2f = map[*T]*T{}
	}
	e.i2f[f] = n.I
	return f
}

// i2f53: IEEE-754 binary64 bits of the signed integer x, exact for |x| <= 2^53 (bit-vector circuit).
func i2f53(x *T) *T {
	zero := sym.BVC(64, 0)
	neg := sym.SLt(x, zero)
	a := sym.Ite(neg, sym.Neg(x), x)
	mask := sym.BVC(64, (uint64(1)<<52)-1)
	res := zero
	for k := 0; k <= 53; k++ {
		cond := sym.And(sym.ULe(sym.BVC(64, uint64(1)<<uint(k)), a), sym.ULt(a, sym.BVC(64, uint64(1)<<uint(k+1))))
		var mant *T
		if k <= 52 {
			mant = sym.BAnd(sym.Shl(a, sym.BVC(64, uint64(52-k))), mask)
		} else {
			mant = sym.BAnd(sym.LShr(a, sym.BVC(64, 1)), mask)
		}
		res = sym.Ite(cond, sym.BOr(sym.BVC(64, uint64(1023+k)<<52), mant), res)
	}
	return sym.BOr(res, sym.Ite(neg, sym.BVC(64, uint64(1)<<63), zero))
}

func (d *jdec) lookupConc(m *Map, k Str) (Value, bool) {
	if ck, ok := concKey(k); ok {
		if i, ok := m.idx[ck]; ok && !m.Entries[i].Deleted && m.Entries[i].Guard == nil {
			return m.Entries[i].V, true
		}
	}
	return nil, false
}

// mapSet adds a decoded member to a map; a member whose presence is symbolic becomes a guarded entry.
func (d *jdec) mapSet(m *Map, k Str, v Value, g *T) {
	e := d.e
	if ck, ok := concKey(k); ok {
		if i, ok := m.idx[ck]; ok && !m.Entries[i].Deleted {
			en := m.Entries[i]
			if g == nil {
				en.V, en.Guard = v, nil
				return
			}
			// later duplicate with symbolic presence: fork
			if e.Branch(g) {
				en.V, en.Guard = v, nil
			}
			return
		}
		m.idx[ck] = len(m.Entries)
		m.Entries = append(m.Entries, &MapEntry{K: k, V: v, Guard: g})
		return
	}
	// symbolic key: the input builders guarantee distinct member names
	m.Entries = append(m.Entries, &MapEntry{K: k, V: v, Guard: g})
}

// generic: the interface{} value encoding/json produces for jv.
func (d *jdec) generic(jv JVal) Value {
	e := d.e
	switch x := jv.(type) {
	case JNull:
		return Iface{}
	case JBool:
		return Iface{T: types.Typ[types.Bool], V: x.B}
	case JStr:
		return Iface{T: types.Typ[types.String], V: x.S}
	case JNum:
		return Iface{T: types.Typ[types.Float64], V: d.floatView(x)}
	case *JArr:
		it := e.P.anyType()
		obj := e.newArrObj(it, len(x.E), "json.[]any")
		for i, el := range x.E {
			obj.Elems[i] = d.generic(el)
		}
		return Iface{T: types.NewSlice(it), V: Slice{Obj: obj, Len: len(x.E), Cap: len(x.E)}}
	case *JObj:
		it := e.P.anyType()
		mt := types.NewMap(types.Typ[types.String], it)
		m := e.newMap(mt)
		for _, mem := range x.M {
			if mem.G != nil && mem.G.IsFalse() {
				continue
			}
			d.mapSet(m, mem.K, d.generic(mem.V), mem.G)
		}
		return Iface{T: mt, V: MapRef{M: m}}
	}
	e.unsupported("generic decode of %T", jv)
	return nil
}

func (p *Program) anyType() types.Type {
	return types.NewInterfaceType(nil, nil)
}

func foldEq(a, b string) bool { return strings.EqualFold(a, b) }

// decodeStruct applies the members of o to the struct at p.
func (d *jdec) decodeStruct(o *JObj, p Ptr, t types.Type) {
	e := d.e
	fields := e.P.typeFields(t)
	for _, m := range o.M {
		if m.G != nil && m.G.IsFalse() {
			continue
		}
		var f *jfield
		if m.K.Concrete() {
			for i := range fields {
				if fields[i].name == m.K.S {
					f = &fields[i]
					break
				}
			}
			if f == nil {
				for i := range fields {
					if foldEq(fields[i].name, m.K.S) {
						f = &fields[i]
						break
					}
				}
			}
		} else if m.K.Op != nil {
			e.unsupported("opaque member name decoded into a struct")
		} else {
			// symbolic member name: may coincide (case-insensitively) with a field name
			for i := range fields {
				if len(fields[i].name) != m.K.Len() {
					continue
				}
				if e.Branch(e.foldEqTerm(m.K, fields[i].name)) {
					f = &fields[i]
					break
				}
			}
		}
		if f == nil {
			continue
		}
		if f.quoted {
			e.unsupported("json ,string option")
		}
		d.decodeField(m, p, t, f)
	}
}

// foldEqTerm: ASCII case-insensitive equality of a symbolic string with a field name
// (encoding/json uses simple Unicode folding; non-ASCII special cases K/S are stated as outside the bound).
func (e *Exec) foldEqTerm(s Str, name string) *T {
	var cs []*T
	for i := 0; i < len(name); i++ {
		c := name[i]
		b := s.Byte(i)
		if c >= 'a' && c <= 'z' || c >= 'A' && c <= 'Z' {
			lo, up := c|0x20, c&^0x20
			cs = append(cs, sym.Or(sym.Eq(b, sym.BVC(8, uint64(lo))), sym.Eq(b, sym.BVC(8, uint64(up)))))
		} else {
			cs = append(cs, sym.Eq(b, sym.BVC(8, uint64(c))))
		}
	}
	return sym.And(cs...)
}

func (d *jdec) decodeField(m JMember, p Ptr, t types.Type, f *jfield) {
	e := d.e
	// navigate to the field, allocating embedded pointers
	fp := p
	ft := t
	for k, i := range f.index {
		if k > 0 {
			if pt, ok := ft.Underlying().(*types.Pointer); ok {
				cur := e.load(fp).(Ptr)
				if cur.Obj == nil {
					if m.G != nil && !e.Branch(m.G) {
						return
					}
					m.G = nil
					cur = e.alloc(pt.Elem(), "json.embedded")
					e.store(fp, cur)
				}
				fp = Ptr{Obj: cur.Obj, Path: cur.Path}
				ft = pt.Elem()
			}
		}
		st := ft.Underlying().(*types.Struct)
		fp = Ptr{Obj: fp.Obj, Path: appendPath(fp.Path, i)}
		ft = st.Field(i).Type()
	}
	if m.G == nil {
		d.decode(m.V, fp, ft, true)
		return
	}
	// presence is symbolic: decode into a copy, then merge under the guard
	old := e.load(fp)
	tmp := e.alloc(ft, "json.tmp")
	e.store(tmp, old)
	sub := &jdec{e: e}
	sub.decode(m.V, tmp, ft, true)
	if sub.err != "" {
		// the error only exists if the member does
		if e.Branch(m.G) {
			d.saveErr(sub.err)
			e.store(fp, e.load(tmp))
		}
		return
	}
	e.store(fp, e.mergeVal(m.G, e.load(tmp), old))
}

// mergeVal: ite(g, nv, old) on Go values (forks only when no guarded representation exists).
func (e *Exec) mergeVal(g *T, nv, old Value) Value {
	fork := func() Value {
		if e.Branch(g) {
			return nv
		}
		return old
	}
	switch n := nv.(type) {
	case *T:
		return sym.Ite(g, n, old.(*T))
	case Str:
		o := old.(Str)
		if n.Concrete() && o.Concrete() && n.S == o.S {
			return n
		}
		if (n.Op != nil || n.Concrete()) && (o.Op != nil || o.Concrete()) {
			return Str{Op: sym.Ite(g, e.opaqueOf(n), e.opaqueOf(o))}
		}
		return fork()
	case Ptr:
		o := old.(Ptr)
		if n.Obj == o.Obj && pathEq(n.Path, o.Path) && n.Guard == o.Guard {
			return n
		}
		if o.Obj == nil {
			if n.Obj == nil {
				return n
			}
			return Ptr{Obj: n.Obj, Path: n.Path, Guard: sym.And(g, guardT(n.Guard))}
		}
		return fork()
	case Slice:
		o := old.(Slice)
		if o.Obj == nil && o.Abs == nil {
			if n.Obj == nil && n.Abs == nil {
				return n
			}
			n.Guard = sym.And(g, guardT(n.Guard))
			return n
		}
		return fork()
	case MapRef:
		o := old.(MapRef)
		if n.M == o.M && n.Guard == o.Guard {
			return n
		}
		if o.M == nil {
			if n.M == nil {
				return n
			}
			return MapRef{M: n.M, Guard: sym.And(g, guardT(n.Guard))}
		}
		return fork()
	case Iface:
		o := old.(Iface)
		if o.T == nil {
			if n.T == nil {
				return n
			}
			n.Guard = sym.And(g, guardT(n.Guard))
			return n
		}
		return fork()
	case *Struct:
		o := old.(*Struct)
		f := make([]Value, len(n.F))
		for i := range f {
			f[i] = e.mergeVal(g, n.F[i], o.F[i])
		}
		return &Struct{F: f}
	case *Array:
		o := old.(*Array)
		el := make([]Value, len(n.E))
		for i := range el {
			el[i] = e.mergeVal(g, n.E[i], o.E[i])
		}
		return &Array{E: el}
	}
	return fork()
}

// ---------- comparisons on abstract JSON ----------

func (e *Exec) jstrEq(a, b Str) *T {
	if (a.Op != nil) != (b.Op != nil) {
		if a.Op != nil && b.Concrete() || b.Op != nil && a.Concrete() {
			return sym.Eq(e.opaqueOf(a), e.opaqueOf(b))
		}
		return sym.False
	}
	return e.strEq(a, b)
}

func (e *Exec) jnumEq(a, b JNum) *T {
	if a.I != nil && b.I != nil {
		return sym.Eq(a.I, b.I)
	}
	if a.F != nil && b.F != nil {
		return sym.Eq(a.F, b.F)
	}
	if a.I != nil && a.I.IsConst() && b.F != nil {
		return sym.Eq(sym.BVC(64, mathFloat64bits(float64(int64(a.I.Val)))), b.F)
	}
	if b.I != nil && b.I.IsConst() && a.F != nil {
		return sym.Eq(sym.BVC(64, mathFloat64bits(float64(int64(b.I.Val)))), a.F)
	}
	e.unsupported("comparison of a number known only as integer with one known only as float")
	return nil
}

// jeq: equality as JSON values (member order irrelevant).
func (e *Exec) jeq(a, b JVal) *T {
	switch x := a.(type) {
	case JNull:
		_, ok := b.(JNull)
		return sym.BoolC(ok)
	case JBool:
		y, ok := b.(JBool)
		if !ok {
			return sym.False
		}
		return sym.Eq(x.B, y.B)
	case JNum:
		y, ok := b.(JNum)
		if !ok {
			return sym.False
		}
		return e.jnumEq(x, y)
	case JStr:
		y, ok := b.(JStr)
		if !ok {
			return sym.False
		}
		return e.jstrEq(x.S, y.S)
	case *JArr:
		y, ok := b.(*JArr)
		if !ok || len(x.E) != len(y.E) {
			return sym.False
		}
		var cs []*T
		for i := range x.E {
			cs = append(cs, e.jeq(x.E[i], y.E[i]))
		}
		return sym.And(cs...)
	case *JObj:
		y, ok := b.(*JObj)
		if !ok {
			return sym.False
		}
		sub := func(p, q *JObj) *T {
			var cs []*T
			for _, m := range p.M {
				var alts []*T
				for _, n := range q.M {
					ne := e.jstrEq(m.K, n.K)
					if ne.IsFalse() {
						continue
					}
					alts = append(alts, sym.And(guardT(n.G), ne, e.jeq(m.V, n.V)))
				}
				cs = append(cs, sym.Implies(guardT(m.G), sym.Or(alts...)))
			}
			return sym.And(cs...)
		}
		return sym.And(sub(x, y), sub(y, x))
	}
	e.unsupported("jeq on %T", a)
	return nil
}

// jNoDup: no object carries the same member name twice.
func (e *Exec) jNoDup(v JVal) *T {
	switch x := v.(type) {
	case *JArr:
		var cs []*T
		for _, el := range x.E {
			cs = append(cs, e.jNoDup(el))
		}
		return sym.And(cs...)
	case *JObj:
		var cs []*T
		for i := range x.M {
			cs = append(cs, sym.Implies(guardT(x.M[i].G), e.jNoDup(x.M[i].V)))
			for j := i + 1; j < len(x.M); j++ {
				ne := e.jstrEq(x.M[i].K, x.M[j].K)
				if ne.IsFalse() {
					continue
				}
				cs = append(cs, sym.Not(sym.And(guardT(x.M[i].G), guardT(x.M[j].G), ne)))
			}
		}
		return sym.And(cs...)
	}
	return sym.True
}

// jBytesEq: byte-for-byte equality of two texts produced by the encoder (same member order).
func (e *Exec) jBytesEq(a, b JVal) *T {
	switch x := a.(type) {
	case *JObj:
		y, ok := b.(*JObj)
		if !ok {
			return sym.False
		}
		// align present members positionally; members with symbolic guards must pair up
		if len(x.M) != len(y.M) {
			// different member lists may still print the same if guards differ; compare as sequences
			return e.jSeqEq(x.M, y.M)
		}
		return e.jSeqEq(x.M, y.M)
	case *JArr:
		y, ok := b.(*JArr)
		if !ok || len(x.E) != len(y.E) {
			return sym.False
		}
		var cs []*T
		for i := range x.E {
			cs = append(cs, e.jBytesEq(x.E[i], y.E[i]))
		}
		return sym.And(cs...)
	}
	return e.jeq(a, b)
}

// jSeqEq: the printed member sequences are equal (members with false guards print nothing).
func (e *Exec) jSeqEq(a, b []JMember) *T {
	// drop definitely-absent members
	filter := func(ms []JMember) []JMember {
		var out []JMember
		for _, m := range ms {
			if m.G != nil && m.G.IsFalse() {
				continue
			}
			out = append(out, m)
		}
		return out
	}
	a, b = filter(a), filter(b)
	// fast path: same names position by position, no name repeated: the printed sequences are equal
	// iff every position has the same presence and, when present, the same value
	if len(a) == len(b) {
		aligned := true
		seen := map[string]bool{}
		for i := range a {
			if !a[i].K.Concrete() || !b[i].K.Concrete() || a[i].K.S != b[i].K.S || seen[a[i].K.S] {
				aligned = false
				break
			}
			seen[a[i].K.S] = true
		}
		if aligned {
			var cs []*T
			for i := range a {
				ga, gb := guardT(a[i].G), guardT(b[i].G)
				cs = append(cs, sym.Eq(ga, gb), sym.Implies(ga, e.jBytesEq(a[i].V, b[i].V)))
			}
			return sym.And(cs...)
		}
	}
	var rec func(i, j int) *T
	memo := map[[2]int]*T{}
	rec = func(i, j int) *T {
		k := [2]int{i, j}
		if r, ok := memo[k]; ok {
			return r
		}
		var r *T
		switch {
		case i == len(a) && j == len(b):
			r = sym.True
		case i == len(a):
			r = sym.And(sym.Not(guardT(b[j].G)), rec(i, j+1))
		case j == len(b):
			r = sym.And(sym.Not(guardT(a[i].G)), rec(i+1, j))
		default:
			ga, gb := guardT(a[i].G), guardT(b[j].G)
			match := sym.False
			if ne := e.jstrEq(a[i].K, b[j].K); !ne.IsFalse() {
				match = sym.And(ga, gb, ne, e.jBytesEq(a[i].V, b[j].V), rec(i+1, j+1))
			}
			if ga.IsTrue() && gb.IsTrue() {
				r = match
			} else {
				r = sym.Or(match, sym.And(sym.Not(ga), rec(i+1, j)), sym.And(ga, sym.Not(gb), rec(i, j+1)))
			}
		}
		memo[k] = r
		return r
	}
	return rec(0, 0)
}

var _ = reflect.TypeOf
