package engine

import (
	"fmt"
	"go/types"
	"math"

	"golang.org/x/tools/go/ssa"

	"verif/internal/sym"
)

func mathFloat64bits(f float64) uint64     { return math.Float64bits(f) }
func mathFloat64frombits(b uint64) float64 { return math.Float64frombits(b) }

// absBuf: content of a bytes.Buffer (always modelled; never executed from SSA).
type absBuf struct {
	pieces []RopePiece
	gob    []*GobMsg
	read   int // gob messages consumed by a decoder
}

func bufKey(p Ptr) string { return fmt.Sprintf("%d%v", p.Obj.ID, p.Path) }

func (e *Exec) bufOf(p Ptr) *absBuf {
	p = e.derefCheck(p)
	e.effectOn(p.Obj.ID)
	tab, _ := e.Ext["bufs"].(map[string]*absBuf)
	if tab == nil {
		tab = map[string]*absBuf{}
		e.Ext["bufs"] = tab
	}
	k := bufKey(p)
	b, ok := tab[k]
	if !ok {
		b = &absBuf{}
		tab[k] = b
	}
	return b
}

func (e *Exec) bufAppendBytes(b *absBuf, s Slice) {
	if s.Abs != nil {
		switch a := s.Abs.(type) {
		case *JText:
			if a.V != nil {
				b.pieces = append(b.pieces, RopePiece{V: a.V})
			} else {
				b.pieces = append(b.pieces, a.Rope...)
			}
		case *GobBlob:
			b.gob = append(b.gob, a.Msgs...)
		}
		return
	}
	if s.Len > 0 {
		b.pieces = append(b.pieces, RopePiece{B: StrOfBytes(e.bytesOf(s))})
	}
}

func (e *Exec) bufBytes(b *absBuf) Slice {
	if len(b.gob) > 0 {
		return Slice{Abs: &GobBlob{Msgs: b.gob[b.read:]}}
	}
	abstract := false
	for _, p := range b.pieces {
		if p.V != nil {
			abstract = true
		}
	}
	if abstract {
		return Slice{Abs: &JText{Rope: append([]RopePiece(nil), b.pieces...)}}
	}
	var bs []*T
	for _, p := range b.pieces {
		bs = append(bs, p.B.Bytes()...)
	}
	if bs == nil {
		return Slice{}
	}
	return e.byteSliceT(bs)
}

func registerJSON(p *Program) {
	reg := func(name string, aware bool, f func(e *Exec, a []Value) Value) {
		p.intrinsics[name] = func(e *Exec, _ *frame, _ *ssa.Function, a []Value) (Value, bool) { return f(e, a), true }
		p.guardAware[name] = aware
	}
	reg("encoding/json.Marshal", true, func(e *Exec, a []Value) Value { return e.jsonMarshal(a[0].(Iface)) })
	reg("encoding/json.Unmarshal", false, func(e *Exec, a []Value) Value { return e.jsonUnmarshal(a[0].(Slice), a[1].(Iface)) })
	reg("encoding/json.Valid", false, func(e *Exec, a []Value) Value {
		_, bad := e.textValue(a[0].(Slice)).(JBad)
		return sym.BoolC(!bad)
	})
	reg("github.com/go-openapi/swag.ConcatJSON", false, func(e *Exec, a []Value) Value { return e.concatJSON(a[0].(Slice)) })

	// json.RawMessage keeps the text as it is
	reg("(*encoding/json.RawMessage).UnmarshalJSON", false, func(e *Exec, a []Value) Value {
		p := a[0].(Ptr)
		if p.Obj == nil {
			return e.mkError("json.RawMessage: UnmarshalJSON on nil pointer")
		}
		e.store(p, a[1])
		return Iface{}
	})
	reg("(encoding/json.RawMessage).MarshalJSON", false, func(e *Exec, a []Value) Value {
		s := a[0].(Slice)
		if s.Obj == nil && s.Abs == nil {
			return Tuple{absSlice(JNull{}), Iface{}}
		}
		return Tuple{s, Iface{}}
	})

	// bytes on abstract texts
	p.intrinsics["bytes.Equal"] = func(e *Exec, _ *frame, _ *ssa.Function, a []Value) (Value, bool) {
		x, y := a[0].(Slice), a[1].(Slice)
		if x.Abs == nil && y.Abs == nil {
			if x.Len != y.Len {
				return sym.False, true
			}
			return e.strEq(StrOfBytes(e.bytesOf(x)), StrOfBytes(e.bytesOf(y))), true
		}
		if x.Abs == nil {
			x, y = y, x
		}
		if y.Abs != nil || !allConc([]Value{y}) {
			e.unsupported("bytes.Equal of two abstract texts")
		}
		lit, err := parseConcrete(e.goBytes(y))
		if err != nil {
			return sym.False, true
		}
		switch lit.(type) {
		case JBool, JNull:
			return e.jeq(e.textValue(x), lit), true
		}
		e.unsupported("bytes.Equal of an abstract text with a non-scalar literal")
		return nil, true
	}
	p.intrinsics["bytes.Trim"] = func(e *Exec, _ *frame, _ *ssa.Function, a []Value) (Value, bool) {
		if a[0].(Slice).Abs != nil {
			return a[0], true // abstract JSON texts carry no padding
		}
		return nil, false
	}

	// bytes.Buffer
	reg("bytes.NewBuffer", false, func(e *Exec, a []Value) Value {
		bt := e.P.allPkgs["bytes"].Pkg.Scope().Lookup("Buffer").Type()
		ptr := e.alloc(bt, "bytes.Buffer")
		e.bufAppendBytes(e.bufOf(ptr), a[0].(Slice))
		return ptr
	})
	reg("bytes.NewBufferString", false, func(e *Exec, a []Value) Value {
		bt := e.P.allPkgs["bytes"].Pkg.Scope().Lookup("Buffer").Type()
		ptr := e.alloc(bt, "bytes.Buffer")
		b := e.bufOf(ptr)
		b.pieces = append(b.pieces, RopePiece{B: a[0].(Str)})
		return ptr
	})
	reg("(*bytes.Buffer).WriteString", false, func(e *Exec, a []Value) Value {
		b := e.bufOf(a[0].(Ptr))
		s := a[1].(Str)
		if s.Op != nil {
			e.unsupported("opaque string written to a buffer")
		}
		if s.Len() > 0 {
			b.pieces = append(b.pieces, RopePiece{B: s})
		}
		return Tuple{sym.BVC(64, uint64(s.Len())), Iface{}}
	})
	reg("(*bytes.Buffer).Write", false, func(e *Exec, a []Value) Value {
		b := e.bufOf(a[0].(Ptr))
		s := a[1].(Slice)
		e.bufAppendBytes(b, s)
		return Tuple{sym.BVC(64, uint64(s.Len)), Iface{}}
	})
	reg("(*bytes.Buffer).WriteByte", false, func(e *Exec, a []Value) Value {
		b := e.bufOf(a[0].(Ptr))
		b.pieces = append(b.pieces, RopePiece{B: StrOfBytes([]*T{a[1].(*T)})})
		return Iface{}
	})
	reg("(*bytes.Buffer).WriteRune", false, func(e *Exec, a []Value) Value {
		b := e.bufOf(a[0].(Ptr))
		r := a[1].(*T)
		if !r.IsConst() {
			e.unsupported("symbolic rune written to buffer")
		}
		s := string(rune(int32(r.Val)))
		b.pieces = append(b.pieces, RopePiece{B: Str{S: s}})
		return Tuple{sym.BVC(64, uint64(len(s))), Iface{}}
	})
	reg("(*bytes.Buffer).Bytes", false, func(e *Exec, a []Value) Value { return e.bufBytes(e.bufOf(a[0].(Ptr))) })
	reg("(*bytes.Buffer).String", false, func(e *Exec, a []Value) Value {
		s := e.bufBytes(e.bufOf(a[0].(Ptr)))
		if s.Abs != nil {
			e.unsupported("String() of a buffer holding abstract JSON")
		}
		return StrOfBytes(e.bytesOf(s))
	})
	reg("(*bytes.Buffer).Len", false, func(e *Exec, a []Value) Value {
		s := e.bufBytes(e.bufOf(a[0].(Ptr)))
		if s.Abs != nil {
			return e.absLenImpl(s)
		}
		return sym.BVC(64, uint64(s.Len))
	})
	reg("(*bytes.Buffer).Reset", false, func(e *Exec, a []Value) Value {
		b := e.bufOf(a[0].(Ptr))
		b.pieces, b.gob, b.read = nil, nil, 0
		return nil
	})

	// harness oracles on JSON texts
	h := func(name string, f func(e *Exec, a []Value) Value) { reg(specPkg+name, false, f) }
	h("vJSONEq", func(e *Exec, a []Value) Value {
		x, y := e.textValue(a[0].(Slice)), e.textValue(a[1].(Slice))
		if _, bad := x.(JBad); bad {
			return sym.False
		}
		if _, bad := y.(JBad); bad {
			return sym.False
		}
		return e.jeq(x, y)
	})
	h("vAssertJSONEq", func(e *Exec, a []Value) Value {
		x, y := e.textValue(a[0].(Slice)), e.textValue(a[1].(Slice))
		what := e.cstr(a[2])
		xo, ok1 := x.(*JObj)
		yo, ok2 := y.(*JObj)
		if !ok1 || !ok2 {
			e.Assert(e.jeq(x, y), what+": values differ")
			return nil
		}
		show := func(k Str) string {
			if k.Concrete() {
				return k.S
			}
			return "(symbolic name)"
		}
		oneWay := func(p, q *JObj, suffix string) {
			for _, m := range p.M {
				var alts []*T
				for _, n := range q.M {
					ne := e.jstrEq(m.K, n.K)
					if ne.IsFalse() {
						continue
					}
					alts = append(alts, sym.And(guardT(n.G), ne, e.jeq(m.V, n.V)))
				}
				e.Assert(sym.Implies(guardT(m.G), sym.Or(alts...)), what+": member "+show(m.K)+suffix)
			}
		}
		oneWay(xo, yo, " lost or changed")
		oneWay(yo, xo, " appears only in the output or with another value")
		return nil
	})
	// vJSONMember(b, name) -> (value text, present): member of a top-level object (symbolic presence allowed)
	h("vJSONMember", func(e *Exec, a []Value) Value {
		o, ok := e.textValue(a[0].(Slice)).(*JObj)
		name := a[1].(Str)
		if !ok {
			return Tuple{Slice{}, sym.False}
		}
		// last matching member wins (as a decoder would see it); names compared symbolically
		var val JVal
		present := sym.False
		for _, m := range o.M {
			ne := e.jstrEq(m.K, name)
			if ne.IsFalse() {
				continue
			}
			c := sym.And(guardT(m.G), ne)
			if c.IsTrue() {
				val, present = m.V, sym.True
				continue
			}
			if e.Branch(c) {
				val, present = m.V, sym.True
			}
		}
		if val == nil {
			return Tuple{Slice{}, sym.False}
		}
		return Tuple{absSlice(val), present}
	})
	// vJSONKeys(b) -> member names of a top-level object in output order (presence guards resolved by forking)
	h("vJSONKeys", func(e *Exec, a []Value) Value {
		o, ok := e.textValue(a[0].(Slice)).(*JObj)
		if !ok {
			return Slice{}
		}
		var names []Value
		for _, m := range o.M {
			if m.G != nil && !e.Branch(m.G) {
				continue
			}
			names = append(names, m.K)
		}
		obj := e.newArrObj(types.Typ[types.String], len(names), "json.keys")
		copy(obj.Elems, names)
		return Slice{Obj: obj, Len: len(names), Cap: len(names)}
	})
	h("vJSONBytesEq", func(e *Exec, a []Value) Value {
		x, y := e.textValue(a[0].(Slice)), e.textValue(a[1].(Slice))
		return e.jBytesEq(x, y)
	})
	h("vJSONNoDup", func(e *Exec, a []Value) Value { return e.jNoDup(e.textValue(a[0].(Slice))) })
	h("vJSONValid", func(e *Exec, a []Value) Value {
		_, bad := e.textValue(a[0].(Slice)).(JBad)
		return sym.BoolC(!bad)
	})
}

var _ types.Type
