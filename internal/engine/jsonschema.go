package engine

import (
	"encoding/json"
	"fmt"
	"os"
	"path/filepath"
	"regexp"
	"strings"

	"golang.org/x/tools/go/ssa"

	"verif/internal/sym"
)

// The shipped meta-schemas compiled, at check time, into a validity predicate over abstract JSON
// values (draft-4 subset used by schemas/v2/schema.json: type, enum, required, properties,
// patternProperties, additionalProperties, items, additionalItems, minItems, minProperties,
// oneOf/anyOf/allOf/not, $ref; format and default are ignored, uniqueItems is not checked).

type metaSchemas struct {
	swagger map[string]interface{}
	draft4  map[string]interface{}
}

func (p *Program) metas() *metaSchemas {
	p.methMu.Lock()
	defer p.methMu.Unlock()
	if m, ok := p.Extra["metas"].(*metaSchemas); ok {
		return m
	}
	m := &metaSchemas{}
	load := func(rel string) map[string]interface{} {
		b, err := os.ReadFile(filepath.Join(p.RepoDir, rel))
		if err != nil {
			panic("cannot read meta-schema " + rel + ": " + err.Error())
		}
		var v map[string]interface{}
		if err := json.Unmarshal(b, &v); err != nil {
			panic("meta-schema " + rel + " does not parse: " + err.Error())
		}
		return v
	}
	m.swagger = load("schemas/v2/schema.json")
	m.draft4 = load("schemas/jsonschema-draft-04.json")
	p.Extra["metas"] = m
	return m
}

type schemaCtx struct {
	doc map[string]interface{} // document the schema node belongs to
}

func ptrGet(doc interface{}, frag string) interface{} {
	cur := doc
	if frag == "" {
		return cur
	}
	for _, tok := range strings.Split(strings.TrimPrefix(frag, "/"), "/") {
		tok = strings.ReplaceAll(strings.ReplaceAll(tok, "~1", "/"), "~0", "~")
		m, ok := cur.(map[string]interface{})
		if !ok {
			return nil
		}
		cur = m[tok]
	}
	return cur
}

func (e *Exec) schemaRef(ms *metaSchemas, ctx schemaCtx, ref string) (map[string]interface{}, schemaCtx) {
	doc := ctx.doc
	frag := ref
	if i := strings.Index(ref, "#"); i >= 0 {
		base := ref[:i]
		frag = ref[i+1:]
		switch base {
		case "":
		case "http://json-schema.org/draft-04/schema":
			doc = ms.draft4
		case "http://swagger.io/v2/schema.json":
			doc = ms.swagger
		default:
			e.unsupported("meta-schema $ref to %s", base)
		}
	}
	n, _ := ptrGet(doc, frag).(map[string]interface{})
	if n == nil {
		e.unsupported("meta-schema $ref %s does not resolve", ref)
	}
	return n, schemaCtx{doc: doc}
}

// patMatch: does the (possibly symbolic) name match the regular expression? The three patterns of the
// Swagger meta-schema are decided on byte terms; any other pattern needs a concrete name.
func (e *Exec) patMatch(pat string, name Str) *T {
	if name.Concrete() {
		re, err := regexp.Compile(pat)
		if err != nil {
			e.unsupported("meta-schema pattern %q", pat)
		}
		return sym.BoolC(re.MatchString(name.S))
	}
	if name.Op != nil {
		e.unsupported("pattern match on an opaque name")
	}
	b := name.Bytes()
	eqb := func(i int, c byte) *T { return sym.Eq(b[i], sym.BVC(8, uint64(c))) }
	switch pat {
	case "^x-":
		if len(b) < 2 {
			return sym.False
		}
		return sym.And(eqb(0, 'x'), eqb(1, '-'))
	case "^/":
		if len(b) < 1 {
			return sym.False
		}
		return eqb(0, '/')
	case "^([0-9]{3})$|^(default)$":
		var alts []*T
		if len(b) == 3 {
			var cs []*T
			for i := 0; i < 3; i++ {
				cs = append(cs, sym.ULe(sym.BVC(8, '0'), b[i]), sym.ULe(b[i], sym.BVC(8, '9')))
			}
			alts = append(alts, sym.And(cs...))
		}
		if len(b) == 7 {
			var cs []*T
			for i, c := range []byte("default") {
				cs = append(cs, eqb(i, c))
			}
			alts = append(alts, sym.And(cs...))
		}
		return sym.Or(alts...)
	}
	e.unsupported("meta-schema pattern %q on a symbolic name", pat)
	return nil
}

func (e *Exec) typeIs(v JVal, t string) *T {
	switch t {
	case "object":
		_, ok := v.(*JObj)
		return sym.BoolC(ok)
	case "array":
		_, ok := v.(*JArr)
		return sym.BoolC(ok)
	case "string":
		_, ok := v.(JStr)
		return sym.BoolC(ok)
	case "boolean":
		_, ok := v.(JBool)
		return sym.BoolC(ok)
	case "null":
		_, ok := v.(JNull)
		return sym.BoolC(ok)
	case "number":
		_, ok := v.(JNum)
		return sym.BoolC(ok)
	case "integer":
		n, ok := v.(JNum)
		return sym.BoolC(ok && n.I != nil)
	}
	return sym.False
}

func (e *Exec) literalEq(v JVal, lit interface{}) *T {
	b, _ := json.Marshal(lit)
	lv, err := parseConcrete(b)
	if err != nil {
		return sym.False
	}
	switch v.(type) {
	case JNum:
		if _, ok := lv.(JNum); !ok {
			return sym.False
		}
	}
	if fmt.Sprintf("%T", v) != fmt.Sprintf("%T", lv) {
		return sym.False
	}
	return e.jeq(v, lv)
}

// jvalid: v validates against the schema node s.
func (e *Exec) jvalid(ms *metaSchemas, ctx schemaCtx, s map[string]interface{}, v JVal, depth int) *T {
	if depth > 40 {
		e.unsupported("meta-schema recursion too deep")
	}
	if ref, ok := s["$ref"].(string); ok {
		n, nctx := e.schemaRef(ms, ctx, ref)
		return e.jvalid(ms, nctx, n, v, depth+1)
	}
	var cs []*T
	if t, ok := s["type"]; ok {
		switch tt := t.(type) {
		case string:
			cs = append(cs, e.typeIs(v, tt))
		case []interface{}:
			var alts []*T
			for _, x := range tt {
				if xs, ok := x.(string); ok {
					alts = append(alts, e.typeIs(v, xs))
				}
			}
			cs = append(cs, sym.Or(alts...))
		}
	}
	if en, ok := s["enum"].([]interface{}); ok {
		var alts []*T
		for _, lit := range en {
			alts = append(alts, e.literalEq(v, lit))
		}
		cs = append(cs, sym.Or(alts...))
	}
	sub := func(k string) []*T {
		var out []*T
		if arr, ok := s[k].([]interface{}); ok {
			for _, x := range arr {
				if xm, ok := x.(map[string]interface{}); ok {
					out = append(out, e.jvalid(ms, ctx, xm, v, depth+1))
				}
			}
		}
		return out
	}
	if _, ok := s["allOf"]; ok {
		cs = append(cs, sym.And(sub("allOf")...))
	}
	if _, ok := s["anyOf"]; ok {
		cs = append(cs, sym.Or(sub("anyOf")...))
	}
	if _, ok := s["oneOf"]; ok {
		alts := sub("oneOf")
		var exactly []*T
		for i := range alts {
			c := []*T{alts[i]}
			for j := range alts {
				if j != i {
					c = append(c, sym.Not(alts[j]))
				}
			}
			exactly = append(exactly, sym.And(c...))
		}
		cs = append(cs, sym.Or(exactly...))
	}
	if n, ok := s["not"].(map[string]interface{}); ok {
		cs = append(cs, sym.Not(e.jvalid(ms, ctx, n, v, depth+1)))
	}
	switch x := v.(type) {
	case *JObj:
		props, _ := s["properties"].(map[string]interface{})
		pats, _ := s["patternProperties"].(map[string]interface{})
		if req, ok := s["required"].([]interface{}); ok {
			for _, r := range req {
				rs, _ := r.(string)
				var alts []*T
				for _, m := range x.M {
					ne := e.jstrEq(m.K, Str{S: rs})
					if !ne.IsFalse() {
						alts = append(alts, sym.And(guardT(m.G), ne))
					}
				}
				cs = append(cs, sym.Or(alts...))
			}
		}
		if mp, ok := s["minProperties"].(float64); ok && mp >= 1 {
			var alts []*T
			for _, m := range x.M {
				alts = append(alts, guardT(m.G))
			}
			cs = append(cs, sym.Or(alts...))
		}
		addl, hasAddl := s["additionalProperties"]
		for _, m := range x.M {
			if m.G != nil && m.G.IsFalse() {
				continue
			}
			var memberOK []*T
			matched := sym.False
			for pn, ps := range props {
				ne := e.jstrEq(m.K, Str{S: pn})
				if ne.IsFalse() {
					continue
				}
				matched = sym.Or(matched, ne)
				if psm, ok := ps.(map[string]interface{}); ok {
					memberOK = append(memberOK, sym.Implies(ne, e.jvalid(ms, ctx, psm, m.V, depth+1)))
				}
			}
			for pat, ps := range pats {
				pm := e.patMatch(pat, m.K)
				if pm.IsFalse() {
					continue
				}
				matched = sym.Or(matched, pm)
				if psm, ok := ps.(map[string]interface{}); ok {
					memberOK = append(memberOK, sym.Implies(pm, e.jvalid(ms, ctx, psm, m.V, depth+1)))
				}
			}
			if hasAddl {
				switch a := addl.(type) {
				case bool:
					if !a {
						memberOK = append(memberOK, matched)
					}
				case map[string]interface{}:
					memberOK = append(memberOK, sym.Or(matched, e.jvalid(ms, ctx, a, m.V, depth+1)))
				}
			}
			cs = append(cs, sym.Implies(guardT(m.G), sym.And(memberOK...)))
		}
	case *JArr:
		if mi, ok := s["minItems"].(float64); ok {
			cs = append(cs, sym.BoolC(float64(len(x.E)) >= mi))
		}
		switch it := s["items"].(type) {
		case map[string]interface{}:
			for _, el := range x.E {
				cs = append(cs, e.jvalid(ms, ctx, it, el, depth+1))
			}
		case []interface{}:
			for i, el := range x.E {
				if i < len(it) {
					if im, ok := it[i].(map[string]interface{}); ok {
						cs = append(cs, e.jvalid(ms, ctx, im, el, depth+1))
					}
				} else if ai, ok := s["additionalItems"].(bool); ok && !ai {
					cs = append(cs, sym.False)
				}
			}
		}
	case JNum:
		if mn, ok := s["minimum"].(float64); ok && x.I != nil {
			if ex, _ := s["exclusiveMinimum"].(bool); ex {
				cs = append(cs, sym.SLt(sym.BVC(64, uint64(int64(mn))), x.I))
			} else {
				cs = append(cs, sym.SLe(sym.BVC(64, uint64(int64(mn))), x.I))
			}
		}
	}
	return sym.And(cs...)
}

func registerJSONSchema(p *Program) {
	// vValidKind(doc []byte, kind string) bool: doc validates against #/definitions/<kind> of the
	// Swagger 2.0 meta-schema ("" or "swagger": the root schema)
	p.intrinsics[specPkg+"vValidKind"] = func(e *Exec, _ *frame, _ *ssa.Function, a []Value) (Value, bool) {
		v := e.textValue(a[0].(Slice))
		if _, bad := v.(JBad); bad {
			return sym.False, true
		}
		kind := e.cstr(a[1])
		ms := e.P.metas()
		var node map[string]interface{}
		if kind == "" || kind == "swagger" {
			node = ms.swagger
		} else {
			defs, _ := ms.swagger["definitions"].(map[string]interface{})
			node, _ = defs[kind].(map[string]interface{})
			if node == nil {
				e.unsupported("no definition %q in the Swagger meta-schema", kind)
			}
		}
		return e.jvalid(ms, schemaCtx{doc: ms.swagger}, node, v, 0), true
	}
}

// showJ renders an abstract JSON value for debugging notes (guards abbreviated).
func showJ(v JVal) string {
	showS := func(s Str) string {
		if s.Concrete() {
			return fmt.Sprintf("%q", s.S)
		}
		if s.Op != nil {
			return "<ostr>"
		}
		return fmt.Sprintf("<sym:%d>", s.Len())
	}
	switch x := v.(type) {
	case nil:
		return "<nil>"
	case JNull:
		return "null"
	case JBool:
		if x.B.IsConst() {
			return fmt.Sprint(x.B.Val == 1)
		}
		return "<bool>"
	case JNum:
		if x.I != nil && x.I.IsConst() {
			return fmt.Sprint(int64(x.I.Val))
		}
		k := "<num:"
		if x.I != nil {
			k += "I"
		}
		if x.F != nil {
			k += "F"
		}
		return k + ">"
	case JStr:
		return showS(x.S)
	case *JArr:
		var parts []string
		for _, el := range x.E {
			parts = append(parts, showJ(el))
		}
		return "[" + strings.Join(parts, ",") + "]"
	case *JObj:
		var parts []string
		for _, m := range x.M {
			g := ""
			if m.G != nil {
				if m.G.IsFalse() {
					continue
				}
				g = "?"
			}
			parts = append(parts, showS(m.K)+g+":"+showJ(m.V))
		}
		return "{" + strings.Join(parts, ",") + "}"
	case JBad:
		return "<bad:" + x.Why + ">"
	}
	return fmt.Sprintf("<%T>", v)
}

func registerJDump(p *Program) {
	{
		// vJDump(doc []byte, label string): a note showing the abstract JSON value (debugging aid)
		p.intrinsics[specPkg+"vJDump"] = func(e *Exec, _ *frame, _ *ssa.Function, a []Value) (Value, bool) {
			e.notes = append(e.notes, e.cstr(a[1])+"="+showJ(e.textValue(a[0].(Slice))))
			return nil, true
		}
	}
}
