package engine

import (
	"fmt"
	"go/token"
	"go/types"
	"strings"
	"unicode/utf8"

	"golang.org/x/tools/go/ssa"

	"verif/internal/sym"
)

// ---------- strings ----------

func (e *Exec) strEq(a, b Str) *T {
	if a.Op != nil || b.Op != nil {
		return sym.Eq(e.opaqueOf(a), e.opaqueOf(b))
	}
	if a.Len() != b.Len() {
		return sym.False
	}
	if a.Concrete() && b.Concrete() {
		return sym.BoolC(a.S == b.S)
	}
	var cs []*T
	for i := 0; i < a.Len(); i++ {
		cs = append(cs, sym.Eq(a.Byte(i), b.Byte(i)))
	}
	return sym.And(cs...)
}

// opaqueOf maps a string to its identity term in the opaque-string domain (BV64 ids;
// 0 = "", literals get small distinct ids, symbolic ones are free variables).
func (e *Exec) opaqueOf(s Str) *T {
	if s.Op != nil {
		return s.Op
	}
	if s.Concrete() {
		return sym.BVC(64, e.P.litID(s.S))
	}
	e.unsupported("byte-symbolic string compared with opaque string")
	return nil
}

func (e *Exec) strLess(a, b Str) *T {
	if a.Op != nil || b.Op != nil {
		e.unsupported("ordering of opaque strings")
	}
	if a.Concrete() && b.Concrete() {
		return sym.BoolC(a.S < b.S)
	}
	// lexicographic: exists i: prefix equal and a[i] < b[i], or a is a proper prefix of b
	n := a.Len()
	if b.Len() < n {
		n = b.Len()
	}
	res := sym.BoolC(a.Len() < b.Len())
	for i := n - 1; i >= 0; i-- {
		res = sym.Ite(sym.Eq(a.Byte(i), b.Byte(i)), res, sym.ULt(a.Byte(i), b.Byte(i)))
	}
	return res
}

func (e *Exec) strBinop(op token.Token, a, b Str) Value {
	switch op {
	case token.ADD:
		return e.concat(a, b)
	case token.EQL:
		return e.strEq(a, b)
	case token.NEQ:
		return sym.Not(e.strEq(a, b))
	case token.LSS:
		return e.strLess(a, b)
	case token.GTR:
		return e.strLess(b, a)
	case token.LEQ:
		return sym.Not(e.strLess(b, a))
	case token.GEQ:
		return sym.Not(e.strLess(a, b))
	}
	panic("string binop " + op.String())
}

func (e *Exec) concat(a, b Str) Str {
	if a.Concrete() && b.Concrete() {
		return Str{S: a.S + b.S}
	}
	if a.Op != nil || b.Op != nil {
		if a.Op != nil && b.Concrete() && b.S == "" {
			return a
		}
		if b.Op != nil && a.Concrete() && a.S == "" {
			return b
		}
		e.unsupported("concatenation of opaque string")
	}
	return StrOfBytes(append(append([]*T(nil), a.Bytes()...), b.Bytes()...))
}

func (e *Exec) strSlice(s Str, lo, hi int) Str {
	if s.Op != nil {
		e.unsupported("slicing opaque string")
	}
	if lo < 0 || hi > s.Len() || lo > hi {
		e.rtPanic(fmt.Sprintf("slice bounds out of range [%d:%d] with length %d", lo, hi, s.Len()))
	}
	if s.Concrete() {
		return Str{S: s.S[lo:hi]}
	}
	return StrOfBytes(s.B[lo:hi])
}

// ---------- slices ----------

func (e *Exec) sliceOp(fr *frame, in *ssa.Slice) Value {
	x := fr.use(in.X)
	lo, hi, max := -1, -1, -1
	// a symbolic bound (e.g. the width of a decoded rune) is resolved by forking over 0..capacity
	limit := -1
	switch v := x.(type) {
	case Str:
		if v.Op == nil {
			limit = v.Len()
		}
	case Slice:
		if v.Abs == nil {
			limit = v.Cap
		}
	}
	bound := func(val ssa.Value, what string) int {
		t := fr.get(val).(*T)
		if t.IsConst() || limit < 0 || limit > 64 {
			return e.concInt(t, what)
		}
		for i := 0; i <= limit; i++ {
			if e.Branch(sym.Eq(t, sym.BVC(t.S.W, uint64(i)))) {
				return i
			}
		}
		e.rtPanic("slice bounds out of range (symbolic)")
		return 0
	}
	if in.Low != nil {
		lo = bound(in.Low, "slice low")
	}
	if in.High != nil {
		hi = bound(in.High, "slice high")
	}
	if in.Max != nil {
		max = bound(in.Max, "slice max")
	}
	switch v := x.(type) {
	case Str:
		if lo < 0 {
			lo = 0
		}
		if hi < 0 {
			hi = v.Len()
		}
		return e.strSlice(v, lo, hi)
	case Slice:
		if v.Abs != nil {
			e.unsupported("slicing abstract JSON bytes")
		}
		if lo < 0 {
			lo = 0
		}
		if hi < 0 {
			hi = v.Len
		}
		if max < 0 {
			max = v.Cap
		}
		if lo > hi || hi > max || max > v.Cap {
			e.rtPanic(fmt.Sprintf("slice bounds out of range [%d:%d:%d] with capacity %d", lo, hi, max, v.Cap))
		}
		if v.Obj == nil {
			return Slice{}
		}
		return Slice{Obj: v.Obj, Off: v.Off + lo, Len: hi - lo, Cap: max - lo}
	case Ptr: // *array
		p := e.derefCheck(v)
		if !p.Obj.Arr || len(p.Path) != 0 {
			e.unsupported("slicing pointer to embedded array")
		}
		n := len(p.Obj.Elems)
		if lo < 0 {
			lo = 0
		}
		if hi < 0 {
			hi = n
		}
		if max < 0 {
			max = n
		}
		if lo > hi || hi > max || max > n {
			e.rtPanic("slice bounds out of range")
		}
		return Slice{Obj: p.Obj, Off: lo, Len: hi - lo, Cap: max - lo}
	}
	panic(fmt.Sprintf("slice of %T", x))
}

// getIndex reads an index operand; an unsigned index narrower than 64 bits (first[s[0]]) is
// zero-extended so that its concrete value is not read as negative.
func (fr *frame) getIndex(v ssa.Value) Value {
	x := fr.get(v)
	t, ok := x.(*T)
	if !ok || t.S.W >= 64 {
		return x
	}
	if b, ok := v.Type().Underlying().(*types.Basic); ok && b.Info()&types.IsUnsigned != 0 {
		return sym.ZExt(t, 64)
	}
	return x
}

// idx resolves an index value to a concrete int in [0,n), forking if symbolic.
func (e *Exec) idx(v Value, n int) int {
	t := v.(*T)
	if t.IsConst() {
		i := e.concInt(t, "index")
		if i < 0 || i >= n {
			e.rtPanic(fmt.Sprintf("index out of range [%d] with length %d", i, n))
		}
		return i
	}
	// symbolic index: choose among 0..n-1 or out of range
	for i := 0; i < n; i++ {
		if e.Branch(sym.Eq(t, sym.BVC(t.S.W, uint64(i)))) {
			return i
		}
	}
	e.rtPanic("index out of range (symbolic)")
	return 0
}

func (e *Exec) indexAddr(fr *frame, in *ssa.IndexAddr) Value {
	x := fr.use(in.X)
	switch v := x.(type) {
	case Slice:
		if v.Abs != nil {
			i := fr.get(in.Index).(*T)
			if !i.IsConst() || i.Val != 0 {
				e.unsupported("address of abstract JSON byte other than the first")
			}
			fb := e.jFirstByte(e.textValue(v))
			return Ptr{Obj: e.newObj(types.Typ[types.Uint8], fb, "json.firstbyte")}
		}
		i := e.idx(fr.getIndex(in.Index), v.Len)
		return Ptr{Obj: v.Obj, Path: []int{v.Off + i}}
	case Ptr:
		p := e.derefCheck(v)
		if p.Obj.Arr && len(p.Path) == 0 {
			i := e.idx(fr.getIndex(in.Index), len(p.Obj.Elems))
			return Ptr{Obj: p.Obj, Path: []int{i}}
		}
		arr := e.load(p).(*Array)
		i := e.idx(fr.getIndex(in.Index), len(arr.E))
		return Ptr{Obj: p.Obj, Path: appendPath(p.Path, i)}
	}
	panic(fmt.Sprintf("indexaddr of %T", x))
}

// selectScalar reads elems[i] for a symbolic i as an ite-chain (no fork except the bounds check).
func (e *Exec) selectScalar(i *T, n int, get func(k int) Value) (Value, bool) {
	if i.IsConst() || n == 0 || n > 64 {
		return nil, false
	}
	var elems []*T
	for k := 0; k < n; k++ {
		t, ok := get(k).(*T)
		if !ok {
			return nil, false
		}
		elems = append(elems, t)
	}
	if !e.Branch(sym.ULt(i, sym.BVC(i.S.W, uint64(n)))) {
		e.rtPanic("index out of range (symbolic)")
	}
	res := elems[n-1]
	for k := n - 2; k >= 0; k-- {
		res = sym.Ite(sym.Eq(i, sym.BVC(i.S.W, uint64(k))), elems[k], res)
	}
	return res, true
}

func (e *Exec) index(fr *frame, in *ssa.Index) Value {
	x := fr.get(in.X)
	switch v := x.(type) {
	case *Array:
		if r, ok := e.selectScalar(fr.get(in.Index).(*T), len(v.E), func(k int) Value { return v.E[k] }); ok {
			return r
		}
		return v.E[e.idx(fr.getIndex(in.Index), len(v.E))]
	case Str:
		if v.Op != nil {
			e.unsupported("indexing opaque string")
		}
		if r, ok := e.selectScalar(fr.get(in.Index).(*T), v.Len(), func(k int) Value { return v.Byte(k) }); ok {
			return r
		}
		return v.Byte(e.idx(fr.getIndex(in.Index), v.Len()))
	}
	panic(fmt.Sprintf("index of %T", x))
}

// ---------- maps ----------

func (e *Exec) newMap(mt *types.Map) *Map {
	e.objCtr++
	m := &Map{ID: e.objCtr, KT: mt.Key(), VT: mt.Elem(), idx: map[string]int{}, Frozen: e.freezing}
	if e.onceShare != "" {
		e.onceCtr++
		m.SharedID = fmt.Sprintf("%s#m%d", e.onceShare, e.onceCtr)
	}
	return m
}

// concKey returns a canonical string for fully concrete comparable keys.
func concKey(k Value) (string, bool) {
	switch x := k.(type) {
	case *T:
		if x.IsConst() {
			return fmt.Sprintf("i%d:%d", x.S.W, x.Val), true
		}
	case Str:
		if x.Concrete() {
			return "s" + x.S, true
		}
	case Iface:
		if x.T == nil {
			return "nil", true
		}
		if s, ok := concKey(x.V); ok {
			return "I" + x.T.String() + "|" + s, true
		}
	case *Struct:
		var sb strings.Builder
		sb.WriteString("{")
		for _, f := range x.F {
			s, ok := concKey(f)
			if !ok {
				return "", false
			}
			sb.WriteString(s)
			sb.WriteString(",")
		}
		return sb.String(), true
	case Native:
		if rt, ok := x.X.(RType); ok {
			return "T" + rt.T.String(), true
		}
	case Ptr:
		if x.Guard == nil {
			if x.Obj == nil {
				return "p0", true
			}
			return fmt.Sprintf("p%d%v", x.Obj.ID, x.Path), true
		}
	}
	return "", false
}

// mapFind locates the entry for key k (forking when symbolic keys may or may not be equal).
// Returns the entry or nil.
func (e *Exec) mapFind(m *Map, k Value) *MapEntry {
	if e.tracing {
		e.traceMap("R", m)
	}
	if ck, ok := concKey(k); ok {
		if i, ok := m.idx[ck]; ok {
			en := m.Entries[i]
			if !en.Deleted {
				if en.Guard != nil {
					if e.Branch(en.Guard) {
						return en
					}
					return nil
				}
				return en
			}
		}
		// compare against symbolic-key entries
		for _, en := range m.Entries {
			if en.Deleted {
				continue
			}
			if _, c := concKey(en.K); c {
				continue
			}
			if e.Branch(sym.And(e.guardOf(en), e.equal(m.KT, en.K, k))) {
				return en
			}
		}
		return nil
	}
	for _, en := range m.Entries {
		if en.Deleted {
			continue
		}
		if e.Branch(sym.And(e.guardOf(en), e.equal(m.KT, en.K, k))) {
			return en
		}
	}
	return nil
}

func (e *Exec) guardOf(en *MapEntry) *T {
	if en.Guard == nil {
		return sym.True
	}
	return en.Guard
}

func (e *Exec) mapGet(mr MapRef, k Value) (Value, bool) {
	if mr.M == nil {
		return nil, false
	}
	if en := e.mapFind(mr.M, k); en != nil {
		return en.V, true
	}
	return nil, false
}

// mapFindQuiet: entry for a concrete key without resolving its presence guard (nil if the key
// needs symbolic comparison or is absent).
func (e *Exec) mapFindQuiet(m *Map, k Value) (*MapEntry, bool) {
	ck, ok := concKey(k)
	if !ok {
		return nil, false
	}
	for _, en := range m.Entries {
		if en.Deleted {
			continue
		}
		if _, c := concKey(en.K); !c {
			return nil, false // symbolic keys present: fall back to the general path
		}
	}
	if i, ok := m.idx[ck]; ok && !m.Entries[i].Deleted {
		return m.Entries[i], true
	}
	return nil, true
}

func (e *Exec) mapUpdate(mr MapRef, k, v Value) {
	if mr.M == nil {
		e.rtPanic("assignment to entry in nil map")
	}
	e.effectOn(mr.M.ID)
	if e.tracing {
		e.traceMap("W", mr.M)
	}
	e.noteMapWrite(mr.M)
	e.subGuard("map write")
	if mr.M.Frozen && !e.initMode {
		e.unsupported("write to frozen package map")
	}
	if en := e.mapFind(mr.M, k); en != nil {
		en.V = v
		en.Guard = nil
		return
	}
	if ck, ok := concKey(k); ok {
		mr.M.idx[ck] = len(mr.M.Entries)
	}
	mr.M.Entries = append(mr.M.Entries, &MapEntry{K: k, V: v})
}

func (e *Exec) mapDelete(mr MapRef, k Value) {
	if mr.M == nil {
		return
	}
	e.noteMapWrite(mr.M)
	e.subGuard("map delete")
	e.effectOn(mr.M.ID)
	if e.tracing {
		e.traceMap("W", mr.M)
	}
	// deleting a concrete key never needs to know whether a guarded entry is present
	if ck, ok := concKey(k); ok {
		if i, ok := mr.M.idx[ck]; ok && !mr.M.Entries[i].Deleted {
			mr.M.Entries[i].Deleted = true
			delete(mr.M.idx, ck)
		}
		anySym := false
		for _, en := range mr.M.Entries {
			if !en.Deleted {
				if _, c := concKey(en.K); !c {
					anySym = true
				}
			}
		}
		if !anySym {
			return
		}
	}
	if en := e.mapFind(mr.M, k); en != nil {
		en.Deleted = true
		if ck, ok := concKey(en.K); ok {
			delete(mr.M.idx, ck)
		}
	}
}

// mapLen: number of present entries (forks on guards).
func (e *Exec) mapLen(mr MapRef) int {
	if mr.M == nil {
		return 0
	}
	n := 0
	for _, en := range mr.M.Entries {
		if en.Deleted {
			continue
		}
		if en.Guard != nil {
			if !e.Branch(en.Guard) {
				continue
			}
		}
		n++
	}
	return n
}

func (e *Exec) lookup(fr *frame, in *ssa.Lookup) Value {
	x := fr.use(in.X)
	if s, ok := x.(Str); ok {
		if s.Op != nil {
			e.unsupported("indexing opaque string")
		}
		if r, ok := e.selectScalar(fr.get(in.Index).(*T), s.Len(), func(k int) Value { return s.Byte(k) }); ok {
			return r
		}
		return s.Byte(e.idx(fr.getIndex(in.Index), s.Len()))
	}
	mr := x.(MapRef)
	vt := in.X.Type().Underlying().(*types.Map).Elem()
	// guarded entry under a concrete key with an interface value: stay symbolic
	if mr.M != nil {
		if en, quiet := e.mapFindQuiet(mr.M, fr.get(in.Index)); quiet && en != nil && en.Guard != nil {
			var gv Value
			switch iv := en.V.(type) {
			case Iface:
				if iv.T != nil {
					iv.Guard = sym.And(en.Guard, guardT(iv.Guard))
					gv = iv
				}
			case Slice:
				if iv.Obj != nil || iv.Abs != nil {
					iv.Guard = sym.And(en.Guard, guardT(iv.Guard))
					gv = iv
				}
			case MapRef:
				if iv.M != nil {
					iv.Guard = sym.And(en.Guard, guardT(iv.Guard))
					gv = iv
				}
			case Ptr:
				if iv.Obj != nil {
					iv.Guard = sym.And(en.Guard, guardT(iv.Guard))
					gv = iv
				}
			}
			if gv != nil {
				if in.CommaOk {
					return Tuple{gv, en.Guard}
				}
				return gv
			}
		}
	}
	v, ok := e.mapGet(mr, fr.get(in.Index))
	if !ok {
		v = e.zero(vt)
	}
	if in.CommaOk {
		return Tuple{v, sym.BoolC(ok)}
	}
	return v
}

// ---------- range ----------

type mapIter struct {
	m    *Map
	left []*MapEntry
}
type strIter struct {
	s   Str
	pos int
}

func (e *Exec) rangeIter(x Value, t types.Type) Value {
	switch v := x.(type) {
	case MapRef:
		it := &mapIter{m: v.M}
		if v.M != nil && e.tracing {
			e.traceMap("R", v.M)
		}
		if v.M != nil {
			for _, en := range v.M.Entries {
				if !en.Deleted {
					it.left = append(it.left, en)
				}
			}
		}
		return it
	case Str:
		return &strIter{s: v}
	}
	panic(fmt.Sprintf("range over %T", x))
}

func (e *Exec) next(fr *frame, it Value, in *ssa.Next) Value {
	switch x := it.(type) {
	case *mapIter:
		// a speculative iteration of this loop came back without any effect: was it observable?
		if p := fr.pendingFor(in); p != nil {
			e.finishPending(fr, p)
		}
		// drop deleted entries and resolve presence guards
		for {
			var live []*MapEntry
			for _, en := range x.left {
				if !en.Deleted {
					live = append(live, en)
				}
			}
			x.left = live
			if len(x.left) == 0 {
				return Tuple{sym.False, e.zero(x.mKT(in)), e.zero(x.mVT(in))}
			}
			// symbolic iteration order: pick any remaining entry
			i := 0
			if len(x.left) > 1 && e.MapOrderSymbolic && orderMatters(x.m) {
				i = e.Choose(len(x.left), "maporder")
			}
			en := x.left[i]
			x.left = append(append([]*MapEntry(nil), x.left[:i]...), x.left[i+1:]...)
			if en.Guard != nil {
				if en.Guard.IsFalse() {
					continue
				}
				if e.sub == nil && !e.NoLazyRange && !en.Guard.IsConst() {
					// lazy presence: run the body speculatively; the fork happens only if the body has an effect
					e.startPending(fr, in, en.Guard)
				} else if !e.Branch(en.Guard) {
					continue
				}
			}
			return Tuple{sym.True, en.K, en.V}
		}
	case *strIter:
		if x.s.Op != nil {
			e.unsupported("range over opaque string")
		}
		if x.pos >= x.s.Len() {
			return Tuple{sym.False, sym.BVC(64, 0), sym.BVC(32, 0)}
		}
		pos := x.pos
		if x.s.Concrete() {
			r, sz := utf8.DecodeRuneInString(x.s.S[pos:])
			x.pos += sz
			return Tuple{sym.True, sym.BVC(64, uint64(pos)), sym.BVC(32, uint64(uint32(r)))}
		}
		b := x.s.Byte(pos)
		if e.Branch(sym.ULt(b, sym.BVC(8, 0x80))) {
			x.pos++
			return Tuple{sym.True, sym.BVC(64, uint64(pos)), sym.ZExt(b, 32)}
		}
		// multi-byte: decode through the real utf8.DecodeRuneInString
		fn := e.P.fnByName("unicode/utf8.DecodeRuneInString")
		res := e.callFn(nil, fn, []Value{e.strSlice(x.s, pos, x.s.Len())}, nil).(Tuple)
		x.pos += e.concIntFork(res[1])
		return Tuple{sym.True, sym.BVC(64, uint64(pos)), res[0]}
	}
	panic(fmt.Sprintf("next on %T", it))
}

// orderMatters: symbolic iteration order is explored for the maps of the object model (values of a
// type declared in package spec); maps of the runtime environment (caches, name indexes) iterate
// in insertion order.
func orderMatters(m *Map) bool {
	if m == nil {
		return false
	}
	t := m.VT
	if p, ok := t.(*types.Pointer); ok {
		t = p.Elem()
	}
	n, ok := t.(*types.Named)
	return ok && n.Obj().Pkg() != nil && n.Obj().Pkg().Path() == "github.com/go-openapi/spec"
}

func (x *mapIter) mKT(in *ssa.Next) types.Type {
	if x.m != nil {
		return x.m.KT
	}
	return in.Type().(*types.Tuple).At(1).Type()
}
func (x *mapIter) mVT(in *ssa.Next) types.Type {
	if x.m != nil {
		return x.m.VT
	}
	return in.Type().(*types.Tuple).At(2).Type()
}

// concIntFork concretises a small symbolic integer by forking over feasible values 0..8.
func (e *Exec) concIntFork(v Value) int {
	t := v.(*T)
	if t.IsConst() {
		return e.concInt(t, "")
	}
	for i := 0; i <= 8; i++ {
		if e.Branch(sym.Eq(t, sym.BVC(t.S.W, uint64(i)))) {
			return i
		}
	}
	e.unsupported("symbolic integer needs concretisation beyond 0..8")
	return 0
}

// ---------- builtins ----------

func (e *Exec) callBuiltin(fr *frame, b *ssa.Builtin, args []Value, site ssa.Instruction) Value {
	switch b.Name() {
	case "len":
		switch x := args[0].(type) {
		case Str:
			if x.Op != nil {
				e.unsupported("len of opaque string")
			}
			return sym.BVC(64, uint64(x.Len()))
		case Slice:
			if x.Abs != nil {
				return e.absLen(x)
			}
			return sym.BVC(64, uint64(x.Len))
		case MapRef:
			return sym.BVC(64, uint64(e.mapLen(x)))
		case *Array:
			return sym.BVC(64, uint64(len(x.E)))
		case Ptr:
			return sym.BVC(64, uint64(len(e.derefCheck(x).Obj.Elems)))
		case Chan:
			e.unsupported("len(chan)")
		}
	case "cap":
		switch x := args[0].(type) {
		case Slice:
			return sym.BVC(64, uint64(x.Cap))
		case *Array:
			return sym.BVC(64, uint64(len(x.E)))
		case Ptr:
			return sym.BVC(64, uint64(len(e.derefCheck(x).Obj.Elems)))
		}
	case "append":
		return e.appendOp(args[0].(Slice), args[1], site)
	case "copy":
		dst := args[0].(Slice)
		n := 0
		switch src := args[1].(type) {
		case Str:
			if src.Op != nil {
				e.unsupported("copy from opaque string")
			}
			n = min(dst.Len, src.Len())
			for i := 0; i < n; i++ {
				dst.Obj.Elems[dst.Off+i] = src.Byte(i)
			}
		case Slice:
			if src.Abs != nil || dst.Abs != nil {
				e.unsupported("copy of abstract JSON bytes")
			}
			n = min(dst.Len, src.Len)
			if n > 0 {
				e.noteWrite(dst.Obj)
				e.effectOn(dst.Obj.ID)
				tmp := append([]Value(nil), src.Obj.Elems[src.Off:src.Off+n]...)
				copy(dst.Obj.Elems[dst.Off:dst.Off+n], tmp)
			}
		}
		return sym.BVC(64, uint64(n))
	case "delete":
		e.mapDelete(args[0].(MapRef), args[1])
		return nil
	case "panic":
		panic(goPanic{V: args[0]})
	case "recover":
		return e.doRecover(fr)
	case "print", "println":
		return nil
	case "min", "max":
		res := args[0]
		sig := site.(ssa.Value).Type()
		for _, a := range args[1:] {
			switch x := res.(type) {
			case *T:
				var lt *T
				if isFloat(sig) {
					e.unsupported("min/max on floats")
				}
				if isSigned(sig) {
					lt = sym.SLt(a.(*T), x)
				} else {
					lt = sym.ULt(a.(*T), x)
				}
				if b.Name() == "max" {
					lt = sym.Not(sym.Or(lt, sym.Eq(a.(*T), x)))
				}
				res = sym.Ite(lt, a.(*T), x)
			default:
				e.unsupported("min/max on %T", res)
			}
		}
		return res
	case "clear":
		switch x := args[0].(type) {
		case MapRef:
			if x.M != nil {
				for _, en := range x.M.Entries {
					en.Deleted = true
				}
				x.M.idx = map[string]int{}
			}
		case Slice:
			for i := 0; i < x.Len; i++ {
				x.Obj.Elems[x.Off+i] = e.zero(x.Obj.Typ)
			}
		}
		return nil
	case "SliceData":
		s := args[0].(Slice)
		if s.Obj == nil {
			return Ptr{}
		}
		return Ptr{Obj: s.Obj, Path: []int{s.Off}}
	case "StringData":
		s := args[0].(Str)
		o := e.newArrObj(types.Typ[types.Uint8], s.Len(), "stringdata")
		for i := 0; i < s.Len(); i++ {
			o.Elems[i] = s.Byte(i)
		}
		return Ptr{Obj: o, Path: []int{0}}
	case "String":
		n := e.concInt(args[1], "unsafe.String len")
		p := args[0].(Ptr)
		if n == 0 {
			return Str{}
		}
		off := 0
		if len(p.Path) > 0 {
			off = p.Path[0]
		}
		bs := make([]*T, n)
		for i := range bs {
			bs[i] = p.Obj.Elems[off+i].(*T)
		}
		return StrOfBytes(bs)
	case "Slice":
		n := e.concInt(args[1], "unsafe.Slice len")
		p := args[0].(Ptr)
		if p.Obj == nil {
			return Slice{}
		}
		off := 0
		if len(p.Path) > 0 {
			off = p.Path[0]
		}
		return Slice{Obj: p.Obj, Off: off, Len: n, Cap: len(p.Obj.Elems) - off}
	case "ssa:wrapnilchk":
		p := args[0].(Ptr)
		if p.Obj == nil {
			e.rtPanic("value method called using nil pointer")
		}
		return e.derefCheck(p)
	}
	e.unsupported("builtin %s on %T", b.Name(), args[0])
	return nil
}

func (e *Exec) doRecover(fr *frame) Value {
	// recover() is effective when called directly by a deferred function of a panicking frame
	if fr != nil && fr.caller != nil && fr.caller.panicking {
		c := fr.caller
		c.panicking = false
		gp := c.panicVal.(goPanic)
		c.panicVal = nil
		return gp.V
	}
	return Iface{}
}

func (e *Exec) appendOp(s Slice, more Value, site ssa.Instruction) Value {
	if s.Abs != nil {
		e.unsupported("append to abstract JSON bytes")
	}
	var add []Value
	var elemT types.Type
	if site != nil {
		if v, ok := site.(ssa.Value); ok {
			if st, ok := v.Type().Underlying().(*types.Slice); ok {
				elemT = st.Elem()
			}
		}
	}
	switch m := more.(type) {
	case Str:
		if m.Op != nil {
			e.unsupported("append opaque string")
		}
		for i := 0; i < m.Len(); i++ {
			add = append(add, m.Byte(i))
		}
	case Slice:
		if m.Abs != nil {
			e.unsupported("append abstract JSON bytes")
		}
		if m.Len > 0 {
			add = append(add, m.Obj.Elems[m.Off:m.Off+m.Len]...)
		}
	}
	if len(add) == 0 {
		return s
	}
	if elemT == nil && s.Obj != nil {
		elemT = s.Obj.Typ
	}
	if s.Obj != nil && s.Len+len(add) <= s.Cap {
		e.noteWrite(s.Obj)
		e.effectOn(s.Obj.ID)
		copy(s.Obj.Elems[s.Off+s.Len:], add)
		s.Len += len(add)
		return s
	}
	ncap := 2*s.Cap + len(add)
	o := e.newArrObj(elemT, ncap, "append")
	if s.Len > 0 {
		copy(o.Elems, s.Obj.Elems[s.Off:s.Off+s.Len])
	}
	copy(o.Elems[s.Len:], add)
	return Slice{Obj: o, Off: 0, Len: s.Len + len(add), Cap: ncap}
}
