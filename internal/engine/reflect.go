package engine

import (
	"fmt"
	"go/types"

	"golang.org/x/tools/go/ssa"

	"verif/internal/sym"
)

// M-reflect: the operations jsonpointer, swag and the repo use, over the engine's heap.

type RType struct{ T types.Type }

type RVal struct {
	V    Value
	T    types.Type
	Addr *Ptr // location, when addressable
}

func (p *Program) rtypePtr() types.Type {
	p.rtypeOnce.Do(func() {
		obj := p.allPkgs["reflect"].Pkg.Scope().Lookup("rtype")
		p.rtypeT = types.NewPointer(obj.Type())
	})
	return p.rtypeT
}

func (e *Exec) mkRType(t types.Type) Value {
	return Iface{T: e.P.rtypePtr(), V: Native{X: RType{T: t}}}
}

func (e *Exec) asRType(v Value) types.Type {
	switch x := v.(type) {
	case Iface:
		if x.T == nil {
			e.rtPanic("nil reflect.Type")
		}
		return x.V.(Native).X.(RType).T
	case Native:
		return x.X.(RType).T
	}
	panic(fmt.Sprintf("asRType %T", v))
}

func (e *Exec) asRVal(v Value) *RVal {
	if n, ok := v.(Native); ok {
		if r, ok := n.X.(*RVal); ok {
			return r
		}
	}
	return nil // zero reflect.Value: invalid
}

func rkind(t types.Type) uint64 {
	switch u := t.Underlying().(type) {
	case *types.Basic:
		switch u.Kind() {
		case types.Bool:
			return 1
		case types.Int:
			return 2
		case types.Int8:
			return 3
		case types.Int16:
			return 4
		case types.Int32:
			return 5
		case types.Int64:
			return 6
		case types.Uint:
			return 7
		case types.Uint8:
			return 8
		case types.Uint16:
			return 9
		case types.Uint32:
			return 10
		case types.Uint64:
			return 11
		case types.Uintptr:
			return 12
		case types.Float32:
			return 13
		case types.Float64:
			return 14
		case types.Complex64:
			return 15
		case types.Complex128:
			return 16
		case types.String:
			return 24
		case types.UnsafePointer:
			return 26
		}
	case *types.Array:
		return 17
	case *types.Chan:
		return 18
	case *types.Signature:
		return 19
	case *types.Interface:
		return 20
	case *types.Map:
		return 21
	case *types.Pointer:
		return 22
	case *types.Slice:
		return 23
	case *types.Struct:
		return 25
	}
	return 0
}

func (e *Exec) rvKind(r *RVal) uint64 {
	if r == nil {
		return 0
	}
	return rkind(r.T)
}

func (e *Exec) rvalOfIface(i Iface) Value {
	if i.T == nil {
		return e.zeroRVal()
	}
	return Native{X: &RVal{V: i.V, T: i.T}}
}

func (e *Exec) zeroRVal() Value { return Native{X: (*RVal)(nil)} }

func (e *Exec) rvIsNil(r *RVal) *T {
	switch x := r.V.(type) {
	case Ptr:
		return ptrNil(x)
	case MapRef:
		return sym.BoolC(x.M == nil)
	case Slice:
		return sym.BoolC(x.Obj == nil && x.Abs == nil)
	case Iface:
		return sym.BoolC(x.T == nil)
	case *Closure:
		return sym.BoolC(x == nil)
	case Chan:
		return sym.BoolC(x.ID == 0)
	}
	e.rtPanic("reflect: call of reflect.Value.IsNil on non-nillable Value")
	return nil
}

func (e *Exec) rvElem(r *RVal) Value {
	switch x := r.V.(type) {
	case Ptr:
		if e.Branch(ptrNil(x)) {
			return e.zeroRVal()
		}
		p := Ptr{Obj: x.Obj, Path: x.Path}
		et := r.T.Underlying().(*types.Pointer).Elem()
		return Native{X: &RVal{V: e.load(p), T: et, Addr: &p}}
	case Iface:
		if x.T == nil {
			return e.zeroRVal()
		}
		return Native{X: &RVal{V: x.V, T: x.T}}
	}
	e.rtPanic("reflect: call of reflect.Value.Elem on non-pointer Value")
	return nil
}

func (e *Exec) rvInterface(r *RVal) Value {
	if r == nil {
		e.rtPanic("reflect: call of reflect.Value.Interface on zero Value")
	}
	if types.IsInterface(r.T) {
		return r.V
	}
	return Iface{T: r.T, V: r.V}
}

func fieldPath(t types.Type, name string) ([]int, types.Type) {
	obj, idx, _ := types.LookupFieldOrMethod(t, true, nil, name)
	v, ok := obj.(*types.Var)
	if !ok || !v.IsField() {
		return nil, nil
	}
	return idx, v.Type()
}

func (e *Exec) rvField(r *RVal, idx []int, ft types.Type) Value {
	v := r.V
	var addr *Ptr
	if r.Addr != nil {
		a := *r.Addr
		addr = &a
	}
	t := r.T
	for _, i := range idx {
		// embedded pointer hops
		if p, ok := v.(Ptr); ok {
			pp := e.derefCheck(p)
			v = e.load(pp)
			addr = &Ptr{Obj: pp.Obj, Path: pp.Path}
			t = t.Underlying().(*types.Pointer).Elem()
		}
		st := t.Underlying().(*types.Struct)
		v = v.(*Struct).F[i]
		t = st.Field(i).Type()
		if addr != nil {
			addr = &Ptr{Obj: addr.Obj, Path: appendPath(addr.Path, i)}
		}
	}
	return Native{X: &RVal{V: v, T: ft, Addr: addr}}
}

func (e *Exec) mkStructField(st *types.Struct, i int) Value {
	f := st.Field(i)
	pkgPath := ""
	if !f.Exported() && f.Pkg() != nil {
		pkgPath = f.Pkg().Path()
	}
	idxObj := e.newArrObj(types.Typ[types.Int], 1, "sf.index")
	idxObj.Elems[0] = sym.BVC(64, uint64(i))
	return &Struct{F: []Value{
		Str{S: f.Name()}, Str{S: pkgPath}, e.mkRType(f.Type()), Str{S: st.Tag(i)}, sym.BVC(64, 0),
		Slice{Obj: idxObj, Len: 1, Cap: 1}, sym.BoolC(f.Embedded()),
	}}
}

func registerReflect(p *Program) {
	reg := func(name string, f func(e *Exec, a []Value) Value) {
		p.intrinsics[name] = func(e *Exec, _ *frame, _ *ssa.Function, a []Value) (Value, bool) { return f(e, a), true }
	}
	reg("reflect.TypeOf", func(e *Exec, a []Value) Value {
		i := a[0].(Iface)
		if i.T == nil {
			return Iface{}
		}
		return e.mkRType(i.T)
	})
	reg("reflect.ValueOf", func(e *Exec, a []Value) Value { return e.rvalOfIface(a[0].(Iface)) })
	reg("reflect.Indirect", func(e *Exec, a []Value) Value {
		r := e.asRVal(a[0])
		if r == nil {
			return a[0]
		}
		if _, ok := r.T.Underlying().(*types.Pointer); ok {
			return e.rvElem(r)
		}
		return a[0]
	})
	reg("reflect.Zero", func(e *Exec, a []Value) Value {
		t := e.asRType(a[0])
		return Native{X: &RVal{V: e.zero(t), T: t}}
	})
	reg("reflect.DeepEqual", func(e *Exec, a []Value) Value {
		return e.deepEq(a[0], a[1], map[[2]*Obj]bool{})
	})
	reg("(reflect.Value).Kind", func(e *Exec, a []Value) Value { return sym.BVC(64, e.rvKind(e.asRVal(a[0]))) })
	reg("(reflect.Value).IsValid", func(e *Exec, a []Value) Value { return sym.BoolC(e.asRVal(a[0]) != nil) })
	reg("(reflect.Value).IsNil", func(e *Exec, a []Value) Value {
		r := e.asRVal(a[0])
		if r == nil {
			e.rtPanic("reflect: call of reflect.Value.IsNil on zero Value")
		}
		return e.rvIsNil(r)
	})
	reg("(reflect.Value).Type", func(e *Exec, a []Value) Value {
		r := e.asRVal(a[0])
		if r == nil {
			e.rtPanic("reflect: call of reflect.Value.Type on zero Value")
		}
		return e.mkRType(r.T)
	})
	reg("(reflect.Value).Elem", func(e *Exec, a []Value) Value { return e.rvElem(e.asRVal(a[0])) })
	reg("(reflect.Value).Interface", func(e *Exec, a []Value) Value { return e.rvInterface(e.asRVal(a[0])) })
	reg("(reflect.Value).CanInterface", func(e *Exec, a []Value) Value { return sym.BoolC(e.asRVal(a[0]) != nil) })
	reg("(reflect.Value).CanAddr", func(e *Exec, a []Value) Value {
		r := e.asRVal(a[0])
		return sym.BoolC(r != nil && r.Addr != nil)
	})
	// CanSet: addressable and not reached through an unexported field (the model never yields such values)
	reg("(reflect.Value).CanSet", func(e *Exec, a []Value) Value {
		r := e.asRVal(a[0])
		return sym.BoolC(r != nil && r.Addr != nil)
	})
	reg("(reflect.Value).Addr", func(e *Exec, a []Value) Value {
		r := e.asRVal(a[0])
		if r == nil || r.Addr == nil {
			e.rtPanic("reflect.Value.Addr of unaddressable value")
		}
		return Native{X: &RVal{V: *r.Addr, T: types.NewPointer(r.T)}}
	})
	reg("(reflect.Value).FieldByName", func(e *Exec, a []Value) Value {
		r := e.asRVal(a[0])
		name := e.cstr(a[1])
		idx, ft := fieldPath(r.T, name)
		if idx == nil {
			return e.zeroRVal()
		}
		return e.rvField(r, idx, ft)
	})
	reg("(reflect.Value).NumField", func(e *Exec, a []Value) Value {
		r := e.asRVal(a[0])
		return sym.BVC(64, uint64(r.T.Underlying().(*types.Struct).NumFields()))
	})
	reg("(reflect.Value).Field", func(e *Exec, a []Value) Value {
		r := e.asRVal(a[0])
		i := e.concInt(a[1], "reflect Field index")
		st := r.T.Underlying().(*types.Struct)
		return e.rvField(r, []int{i}, st.Field(i).Type())
	})
	reg("(reflect.Value).MapIndex", func(e *Exec, a []Value) Value {
		r := e.asRVal(a[0])
		k := e.asRVal(a[1])
		mt := r.T.Underlying().(*types.Map)
		kv := k.V
		if types.IsInterface(mt.Key()) && !types.IsInterface(k.T) {
			kv = Iface{T: k.T, V: k.V}
		}
		v, ok := e.mapGet(r.V.(MapRef), kv)
		if !ok {
			return e.zeroRVal()
		}
		return Native{X: &RVal{V: v, T: mt.Elem()}}
	})
	reg("(reflect.Value).Len", func(e *Exec, a []Value) Value {
		r := e.asRVal(a[0])
		switch x := r.V.(type) {
		case Slice:
			return sym.BVC(64, uint64(x.Len))
		case Str:
			if x.Op != nil {
				// an opaque string: only its emptiness is known (id 0 is the empty string)
				if x.Op.IsConst() && x.Op.Val == 0 {
					return sym.BVC(64, 0)
				}
				n := e.NewInput("ostr.len", sym.BV(64))
				e.Assume(sym.Not(sym.Eq(n, sym.BVC(64, 0))))
				return sym.Ite(sym.Eq(x.Op, sym.BVC(64, 0)), sym.BVC(64, 0), n)
			}
			return sym.BVC(64, uint64(x.Len()))
		case MapRef:
			return sym.BVC(64, uint64(e.mapLen(x)))
		case *Array:
			return sym.BVC(64, uint64(len(x.E)))
		}
		e.rtPanic("reflect: call of reflect.Value.Len on bad Value")
		return nil
	})
	reg("(reflect.Value).Index", func(e *Exec, a []Value) Value {
		r := e.asRVal(a[0])
		switch x := r.V.(type) {
		case Slice:
			i := e.idx(a[1], x.Len)
			p := Ptr{Obj: x.Obj, Path: []int{x.Off + i}}
			return Native{X: &RVal{V: e.load(p), T: r.T.Underlying().(*types.Slice).Elem(), Addr: &p}}
		case *Array:
			i := e.idx(a[1], len(x.E))
			rv := &RVal{V: x.E[i], T: r.T.Underlying().(*types.Array).Elem()}
			if r.Addr != nil {
				rv.Addr = &Ptr{Obj: r.Addr.Obj, Path: appendPath(r.Addr.Path, i)}
			}
			return Native{X: rv}
		}
		e.rtPanic("reflect: call of reflect.Value.Index on bad Value")
		return nil
	})
	reg("(reflect.Value).String", func(e *Exec, a []Value) Value {
		r := e.asRVal(a[0])
		if r == nil {
			return Str{S: "<invalid Value>"}
		}
		if s, ok := r.V.(Str); ok {
			return s
		}
		return Str{S: "<" + types.TypeString(r.T, func(p *types.Package) string { return p.Name() }) + " Value>"}
	})
	reg("(reflect.Value).Int", func(e *Exec, a []Value) Value {
		r := e.asRVal(a[0])
		return sym.Resize(r.V.(*T), 64, true)
	})
	reg("(reflect.Value).Uint", func(e *Exec, a []Value) Value {
		r := e.asRVal(a[0])
		return sym.Resize(r.V.(*T), 64, false)
	})
	reg("(reflect.Value).Bool", func(e *Exec, a []Value) Value { return e.asRVal(a[0]).V })
	reg("(reflect.Value).Float", func(e *Exec, a []Value) Value {
		r := e.asRVal(a[0])
		return e.conv(types.Typ[types.Float64], r.T, r.V)
	})
	reg("(reflect.Value).Set", func(e *Exec, a []Value) Value {
		r := e.asRVal(a[0])
		x := e.asRVal(a[1])
		if r == nil || r.Addr == nil {
			e.rtPanic("reflect.Value.Set using unaddressable value")
		}
		v := x.V
		if types.IsInterface(r.T) && !types.IsInterface(x.T) {
			v = Iface{T: x.T, V: x.V}
		}
		e.store(*r.Addr, v)
		return nil
	})
	reg("(reflect.Value).SetMapIndex", func(e *Exec, a []Value) Value {
		r := e.asRVal(a[0])
		k, x := e.asRVal(a[1]), e.asRVal(a[2])
		mt := r.T.Underlying().(*types.Map)
		kv, v := k.V, x.V
		if types.IsInterface(mt.Key()) && !types.IsInterface(k.T) {
			kv = Iface{T: k.T, V: k.V}
		}
		if types.IsInterface(mt.Elem()) && !types.IsInterface(x.T) {
			v = Iface{T: x.T, V: x.V}
		}
		e.mapUpdate(r.V.(MapRef), kv, v)
		return nil
	})

	// reflect.Type methods (dynamic type *reflect.rtype)
	tm := func(name string, f func(e *Exec, t types.Type, a []Value) Value) {
		reg("(*reflect.rtype)."+name, func(e *Exec, a []Value) Value { return f(e, e.asRType(a[0]), a) })
	}
	tm("Kind", func(e *Exec, t types.Type, a []Value) Value { return sym.BVC(64, rkind(t)) })
	tm("Elem", func(e *Exec, t types.Type, a []Value) Value {
		switch u := t.Underlying().(type) {
		case *types.Pointer:
			return e.mkRType(u.Elem())
		case *types.Slice:
			return e.mkRType(u.Elem())
		case *types.Array:
			return e.mkRType(u.Elem())
		case *types.Map:
			return e.mkRType(u.Elem())
		}
		e.rtPanic("reflect: Elem of invalid type " + t.String())
		return nil
	})
	tm("Key", func(e *Exec, t types.Type, a []Value) Value { return e.mkRType(t.Underlying().(*types.Map).Key()) })
	tm("Implements", func(e *Exec, t types.Type, a []Value) Value {
		u := e.asRType(a[1])
		return sym.BoolC(types.Implements(t, u.Underlying().(*types.Interface)))
	})
	tm("NumField", func(e *Exec, t types.Type, a []Value) Value {
		st, ok := t.Underlying().(*types.Struct)
		if !ok {
			e.rtPanic("reflect: NumField of non-struct type " + t.String())
		}
		return sym.BVC(64, uint64(st.NumFields()))
	})
	tm("Field", func(e *Exec, t types.Type, a []Value) Value {
		st := t.Underlying().(*types.Struct)
		return e.mkStructField(st, e.concInt(a[1], "Field index"))
	})
	tm("Name", func(e *Exec, t types.Type, a []Value) Value {
		if n, ok := t.(*types.Named); ok {
			return Str{S: n.Obj().Name()}
		}
		if b, ok := t.(*types.Basic); ok {
			return Str{S: b.Name()}
		}
		return Str{}
	})
	tm("PkgPath", func(e *Exec, t types.Type, a []Value) Value {
		if n, ok := t.(*types.Named); ok && n.Obj().Pkg() != nil {
			return Str{S: n.Obj().Pkg().Path()}
		}
		return Str{}
	})
	tm("String", func(e *Exec, t types.Type, a []Value) Value {
		return Str{S: types.TypeString(t, func(p *types.Package) string { return p.Name() })}
	})
}
