package engine

import (
	"go/types"
	"strings"

	"golang.org/x/tools/go/ssa"

	"verif/internal/sym"
)

// Native wraps engine-side Go data travelling through interpreted code as an opaque value
// (reflect.Type, reflect.Value, *regexp.Regexp, ...).
type Native struct{ X interface{} }

type Regexp struct{ Pat string }

func registerStd(p *Program) {
	reg := func(name string, f Intrinsic) { p.intrinsics[name] = f }
	registerReflect(p)
	registerStrings(p)

	// ---- sync/atomic function forms ----
	for _, ty := range []string{"Int32", "Int64", "Uint32", "Uint64", "Uintptr", "Pointer"} {
		reg("sync/atomic.Load"+ty, func(e *Exec, _ *frame, _ *ssa.Function, a []Value) (Value, bool) {
			e.atomicDepth++
			defer func() { e.atomicDepth-- }()
			return e.load(a[0].(Ptr)), true
		})
		reg("sync/atomic.Store"+ty, func(e *Exec, _ *frame, _ *ssa.Function, a []Value) (Value, bool) {
			e.atomicDepth++
			defer func() { e.atomicDepth-- }()
			e.store(a[0].(Ptr), a[1])
			return nil, true
		})
		reg("sync/atomic.Swap"+ty, func(e *Exec, _ *frame, _ *ssa.Function, a []Value) (Value, bool) {
			e.atomicDepth++
			defer func() { e.atomicDepth-- }()
			old := e.load(a[0].(Ptr))
			e.store(a[0].(Ptr), a[1])
			return old, true
		})
		ty := ty
		reg("sync/atomic.CompareAndSwap"+ty, func(e *Exec, _ *frame, fn *ssa.Function, a []Value) (Value, bool) {
			e.atomicDepth++
			defer func() { e.atomicDepth-- }()
			old := e.load(a[0].(Ptr))
			t := fn.Signature.Params().At(1).Type()
			if e.Branch(e.equal(t, old, a[1])) {
				e.store(a[0].(Ptr), a[2])
				return sym.True, true
			}
			return sym.False, true
		})
		if ty != "Pointer" {
			reg("sync/atomic.Add"+ty, func(e *Exec, _ *frame, _ *ssa.Function, a []Value) (Value, bool) {
				e.atomicDepth++
				defer func() { e.atomicDepth-- }()
				nv := sym.Add(e.load(a[0].(Ptr)).(*T), a[1].(*T))
				e.store(a[0].(Ptr), nv)
				return nv, true
			})
		}
	}
	nop := func(e *Exec, _ *frame, _ *ssa.Function, a []Value) (Value, bool) { return nil, true }
	for _, n := range []string{"sync.runtime_Semacquire", "sync.runtime_Semrelease", "sync.runtime_SemacquireMutex", "sync.runtime_SemacquireRWMutexR",
		"sync.runtime_SemacquireRWMutex", "sync.throw", "sync.fatal", "encoding/gob.Register", "encoding/gob.RegisterName",
		"log.Printf", "log.Println", "log.Print", "(*log.Logger).Printf", "(*log.Logger).Println", "(*log.Logger).Output"} {
		reg(n, nop)
	}

	registerJSON(p)
	registerJDoc(p)
	registerJSONSchema(p)
	registerJDump(p)
	registerTrace(p)
	registerGob(p)

	// ---- regexp: only what jsonreference/internal uses ----
	rxPat := func(e *Exec, v Value) string {
		return e.load(v.(Ptr)).(Native).X.(*Regexp).Pat
	}
	reg("(*regexp.Regexp).ReplaceAllString", func(e *Exec, fr *frame, fn *ssa.Function, a []Value) (Value, bool) {
		pat := rxPat(e, a[0])
		if pat == `/{2,}` && e.cstrOK(a[2]) == "/" {
			return e.callFn(fr, e.P.Pkg.Func("vrefRxDupSlashes"), []Value{a[1]}, nil), true
		}
		e.unsupported("regexp.ReplaceAllString with pattern %q", pat)
		return nil, true
	})
	reg("(*regexp.Regexp).ReplaceAllStringFunc", func(e *Exec, fr *frame, fn *ssa.Function, a []Value) (Value, bool) {
		pat := rxPat(e, a[0])
		if pat == `(:\d+)/?$` {
			return e.callFn(fr, e.P.Pkg.Func("vrefRxPort"), []Value{a[1], a[2]}, nil), true
		}
		e.unsupported("regexp.ReplaceAllStringFunc with pattern %q", pat)
		return nil, true
	})
	reg("regexp.MustCompile", func(e *Exec, _ *frame, fn *ssa.Function, a []Value) (Value, bool) {
		o := e.newObj(nil, Native{X: &Regexp{Pat: e.cstr(a[0])}}, "regexp")
		return Ptr{Obj: o}, true
	})
}

func (e *Exec) absLen(s Slice) Value { return e.absLenImpl(s) }

var _ = strings.HasPrefix
var _ types.Type
