package engine

import (
	"fmt"
	"os"
	"path/filepath"
	"go/types"
	"path"
	"strconv"
	"strings"
	"unicode/utf8"

	"golang.org/x/tools/go/ssa"

	"verif/internal/sym"
)

func cInt(i int) *T { return sym.BVC(64, uint64(int64(i))) }

func allConc(a []Value) bool {
	for _, v := range a {
		switch x := v.(type) {
		case Str:
			if !x.Concrete() {
				return false
			}
		case *T:
			if !x.IsConst() {
				return false
			}
		case Slice:
			if x.Abs != nil {
				return false
			}
			for i := 0; i < x.Len; i++ {
				if !allConc([]Value{x.Obj.Elems[x.Off+i]}) {
					return false
				}
			}
		default:
			return false
		}
	}
	return true
}

func (e *Exec) strSliceVal(ss []string) Value {
	o := e.newArrObj(types.Typ[types.String], len(ss), "[]string")
	for i, s := range ss {
		o.Elems[i] = Str{S: s}
	}
	if ss == nil {
		return Slice{}
	}
	return Slice{Obj: o, Len: len(ss), Cap: len(ss)}
}

func (e *Exec) goStrings(s Slice) []string {
	out := make([]string, s.Len)
	for i := range out {
		out[i] = s.Obj.Elems[s.Off+i].(Str).S
	}
	return out
}

func (e *Exec) bytesOf(s Slice) []*T {
	out := make([]*T, s.Len)
	for i := range out {
		out[i] = s.Obj.Elems[s.Off+i].(*T)
	}
	return out
}

func (e *Exec) goBytes(s Slice) []byte {
	out := make([]byte, s.Len)
	for i := range out {
		out[i] = byte(s.Obj.Elems[s.Off+i].(*T).Val)
	}
	return out
}

func (e *Exec) byteSlice(b []byte) Slice {
	if b == nil {
		return Slice{}
	}
	o := e.newArrObj(types.Typ[types.Uint8], len(b), "[]byte")
	for i, c := range b {
		o.Elems[i] = sym.BVC(8, uint64(c))
	}
	return Slice{Obj: o, Len: len(b), Cap: len(b)}
}

func (e *Exec) byteSliceT(b []*T) Slice {
	o := e.newArrObj(types.Typ[types.Uint8], len(b), "[]byte")
	copy2 := make([]Value, len(b))
	for i, c := range b {
		copy2[i] = c
	}
	o.Elems = copy2
	return Slice{Obj: o, Len: len(b), Cap: len(b)}
}

// symIndexByte: first index of c in bytes (forks per position).
func (e *Exec) symIndexByte(bs []*T, c *T) int {
	for i, b := range bs {
		if e.Branch(sym.Eq(b, c)) {
			return i
		}
	}
	return -1
}

func (e *Exec) symIndex(a, b Str) int {
	n, m := a.Len(), b.Len()
	if m == 0 {
		return 0
	}
	for i := 0; i+m <= n; i++ {
		if e.Branch(e.strEq(e.strSlice(a, i, i+m), b)) {
			return i
		}
	}
	return -1
}

func (e *Exec) symCompare(a, b Str) int {
	if e.Branch(e.strEq(a, b)) {
		return 0
	}
	if e.Branch(e.strLess(a, b)) {
		return -1
	}
	return 1
}

func registerStrings(p *Program) {
	// concrete fast paths: computed natively when every argument is concrete, otherwise the
	// real library code is executed from SSA.
	fast := func(name string, f func(e *Exec, a []Value) Value) {
		p.intrinsics[name] = func(e *Exec, _ *frame, _ *ssa.Function, a []Value) (Value, bool) {
			if !allConc(a) {
				return nil, false
			}
			return f(e, a), true
		}
	}
	always := func(name string, f func(e *Exec, a []Value) Value) {
		p.intrinsics[name] = func(e *Exec, _ *frame, _ *ssa.Function, a []Value) (Value, bool) { return f(e, a), true }
	}
	S := func(v Value) string { return v.(Str).S }
	I := func(v Value) int { return int(int64(v.(*T).Val)) }
	B := func(b bool) Value { return sym.BoolC(b) }

	fast("strings.Index", func(e *Exec, a []Value) Value { return cInt(strings.Index(S(a[0]), S(a[1]))) })
	fast("strings.IndexByte", func(e *Exec, a []Value) Value { return cInt(strings.IndexByte(S(a[0]), byte(I(a[1])))) })
	fast("strings.IndexRune", func(e *Exec, a []Value) Value { return cInt(strings.IndexRune(S(a[0]), rune(I(a[1])))) })
	fast("strings.IndexAny", func(e *Exec, a []Value) Value { return cInt(strings.IndexAny(S(a[0]), S(a[1]))) })
	fast("strings.LastIndex", func(e *Exec, a []Value) Value { return cInt(strings.LastIndex(S(a[0]), S(a[1]))) })
	fast("strings.LastIndexByte", func(e *Exec, a []Value) Value { return cInt(strings.LastIndexByte(S(a[0]), byte(I(a[1])))) })
	fast("strings.Contains", func(e *Exec, a []Value) Value { return B(strings.Contains(S(a[0]), S(a[1]))) })
	fast("strings.ContainsRune", func(e *Exec, a []Value) Value { return B(strings.ContainsRune(S(a[0]), rune(I(a[1])))) })
	fast("strings.ContainsAny", func(e *Exec, a []Value) Value { return B(strings.ContainsAny(S(a[0]), S(a[1]))) })
	fast("strings.HasPrefix", func(e *Exec, a []Value) Value { return B(strings.HasPrefix(S(a[0]), S(a[1]))) })
	fast("strings.HasSuffix", func(e *Exec, a []Value) Value { return B(strings.HasSuffix(S(a[0]), S(a[1]))) })
	fast("strings.Split", func(e *Exec, a []Value) Value { return e.strSliceVal(strings.Split(S(a[0]), S(a[1]))) })
	fast("strings.SplitN", func(e *Exec, a []Value) Value { return e.strSliceVal(strings.SplitN(S(a[0]), S(a[1]), I(a[2]))) })
	fast("strings.Fields", func(e *Exec, a []Value) Value { return e.strSliceVal(strings.Fields(S(a[0]))) })
	fast("strings.Join", func(e *Exec, a []Value) Value { return Str{S: strings.Join(e.goStrings(a[0].(Slice)), S(a[1]))} })
	fast("strings.ToLower", func(e *Exec, a []Value) Value { return Str{S: strings.ToLower(S(a[0]))} })
	fast("strings.ToUpper", func(e *Exec, a []Value) Value { return Str{S: strings.ToUpper(S(a[0]))} })
	fast("strings.TrimSpace", func(e *Exec, a []Value) Value { return Str{S: strings.TrimSpace(S(a[0]))} })
	fast("strings.Trim", func(e *Exec, a []Value) Value { return Str{S: strings.Trim(S(a[0]), S(a[1]))} })
	fast("strings.TrimLeft", func(e *Exec, a []Value) Value { return Str{S: strings.TrimLeft(S(a[0]), S(a[1]))} })
	fast("strings.TrimRight", func(e *Exec, a []Value) Value { return Str{S: strings.TrimRight(S(a[0]), S(a[1]))} })
	fast("strings.TrimPrefix", func(e *Exec, a []Value) Value { return Str{S: strings.TrimPrefix(S(a[0]), S(a[1]))} })
	fast("strings.TrimSuffix", func(e *Exec, a []Value) Value { return Str{S: strings.TrimSuffix(S(a[0]), S(a[1]))} })
	fast("strings.Replace", func(e *Exec, a []Value) Value { return Str{S: strings.Replace(S(a[0]), S(a[1]), S(a[2]), I(a[3]))} })
	fast("strings.ReplaceAll", func(e *Exec, a []Value) Value { return Str{S: strings.ReplaceAll(S(a[0]), S(a[1]), S(a[2]))} })
	fast("strings.EqualFold", func(e *Exec, a []Value) Value { return B(strings.EqualFold(S(a[0]), S(a[1]))) })
	fast("strings.Count", func(e *Exec, a []Value) Value { return cInt(strings.Count(S(a[0]), S(a[1]))) })
	fast("strings.Repeat", func(e *Exec, a []Value) Value { return Str{S: strings.Repeat(S(a[0]), I(a[1]))} })
	fast("strings.Cut", func(e *Exec, a []Value) Value {
		b, c, ok := strings.Cut(S(a[0]), S(a[1]))
		return Tuple{Str{S: b}, Str{S: c}, B(ok)}
	})
	fast("strconv.Itoa", func(e *Exec, a []Value) Value { return Str{S: strconv.Itoa(I(a[0]))} })
	fast("strconv.Quote", func(e *Exec, a []Value) Value { return Str{S: strconv.Quote(S(a[0]))} })
	fast("strconv.FormatInt", func(e *Exec, a []Value) Value { return Str{S: strconv.FormatInt(int64(I(a[0])), I(a[1]))} })
	fast("path.Clean", func(e *Exec, a []Value) Value { return Str{S: path.Clean(S(a[0]))} })
	fast("path.Dir", func(e *Exec, a []Value) Value { return Str{S: path.Dir(S(a[0]))} })
	fast("path.Base", func(e *Exec, a []Value) Value { return Str{S: path.Base(S(a[0]))} })
	fast("path.Ext", func(e *Exec, a []Value) Value { return Str{S: path.Ext(S(a[0]))} })
	fast("path.IsAbs", func(e *Exec, a []Value) Value { return B(path.IsAbs(S(a[0]))) })
	fast("path.Join", func(e *Exec, a []Value) Value { return Str{S: path.Join(e.goStrings(a[0].(Slice))...)} })
	fast("unicode/utf8.ValidString", func(e *Exec, a []Value) Value { return B(utf8.ValidString(S(a[0]))) })
	fast("unicode/utf8.RuneCountInString", func(e *Exec, a []Value) Value { return cInt(utf8.RuneCountInString(S(a[0]))) })

	// assembly-backed leaves, with symbolic support
	always("internal/bytealg.IndexByteString", func(e *Exec, a []Value) Value {
		return cInt(e.symIndexByte(a[0].(Str).Bytes(), a[1].(*T)))
	})
	always("internal/bytealg.IndexByte", func(e *Exec, a []Value) Value {
		return cInt(e.symIndexByte(e.bytesOf(a[0].(Slice)), a[1].(*T)))
	})
	always("internal/bytealg.CountString", func(e *Exec, a []Value) Value {
		n := 0
		for _, b := range a[0].(Str).Bytes() {
			if e.Branch(sym.Eq(b, a[1].(*T))) {
				n++
			}
		}
		return cInt(n)
	})
	always("internal/bytealg.Count", func(e *Exec, a []Value) Value {
		n := 0
		for _, b := range e.bytesOf(a[0].(Slice)) {
			if e.Branch(sym.Eq(b, a[1].(*T))) {
				n++
			}
		}
		return cInt(n)
	})
	always("internal/bytealg.IndexString", func(e *Exec, a []Value) Value { return cInt(e.symIndex(a[0].(Str), a[1].(Str))) })
	always("internal/bytealg.Index", func(e *Exec, a []Value) Value {
		return cInt(e.symIndex(StrOfBytes(e.bytesOf(a[0].(Slice))), StrOfBytes(e.bytesOf(a[1].(Slice)))))
	})
	always("internal/bytealg.Compare", func(e *Exec, a []Value) Value {
		return cInt(e.symCompare(StrOfBytes(e.bytesOf(a[0].(Slice))), StrOfBytes(e.bytesOf(a[1].(Slice)))))
	})
	always("internal/bytealg.abigen_runtime_cmpstring", func(e *Exec, a []Value) Value {
		return cInt(e.symCompare(a[0].(Str), a[1].(Str)))
	})
	always("strings.Compare", func(e *Exec, a []Value) Value { return cInt(e.symCompare(a[0].(Str), a[1].(Str))) })
	always("internal/bytealg.MakeNoZero", func(e *Exec, a []Value) Value {
		n := e.concInt(a[0], "MakeNoZero")
		return Slice{Obj: e.newArrObj(types.Typ[types.Uint8], n, "makenozero"), Len: n, Cap: n}
	})
	always("internal/abi.NoEscape", func(e *Exec, a []Value) Value { return a[0] })
	always("(*strings.Builder).copyCheck", func(e *Exec, a []Value) Value { return nil })
	// M-os: no file or network I/O exists; embedded assets are read from /repo at check time
	always("github.com/go-openapi/swag.LoadFromFileOrHTTP", func(e *Exec, a []Value) Value {
		return Tuple{Slice{}, e.mkError("open " + e.fmtVal(a[0], 's') + ": no such file or directory (M-os: no file system)")}
	})
	always("(embed.FS).ReadFile", func(e *Exec, a []Value) Value {
		name := e.cstr(a[1])
		b, err := os.ReadFile(filepath.Join(e.P.RepoDir, name))
		if err != nil {
			return Tuple{Slice{}, e.mkError("embed: " + err.Error())}
		}
		return Tuple{e.byteSlice(b), Iface{}}
	})
	always("os.Getenv", func(e *Exec, a []Value) Value { return Str{} })
	always("os.Getwd", func(e *Exec, a []Value) Value { return Tuple{Str{S: e.cwd()}, Iface{}} })
	always("github.com/go-openapi/spec.MustLoadSwagger20Schema", func(e *Exec, a []Value) Value { return e.lazyMeta("swagger20") })
	always("github.com/go-openapi/spec.MustLoadJSONSchemaDraft04", func(e *Exec, a []Value) Value { return e.lazyMeta("draft04") })
	always("os.IsPathSeparator", func(e *Exec, a []Value) Value { return sym.Eq(a[0].(*T), sym.BVC(8, '/')) })

	// fmt: messages are rendered when concrete; symbolic pieces print as placeholders
	always("fmt.Sprintf", func(e *Exec, a []Value) Value { return Str{S: e.sprintf(a[0].(Str), a[1].(Slice))} })
	always("fmt.Sprint", func(e *Exec, a []Value) Value {
		var sb strings.Builder
		s := a[0].(Slice)
		for i := 0; i < s.Len; i++ {
			sb.WriteString(e.fmtVal(s.Obj.Elems[s.Off+i], 'v'))
		}
		return Str{S: sb.String()}
	})
	always("fmt.Errorf", func(e *Exec, a []Value) Value {
		args := a[1].(Slice)
		msg := e.sprintf(a[0].(Str), args)
		var wrapped Value = Iface{}
		// the argument bound to %w
		f := a[0].(Str).S
		ai := 0
		for i := 0; i+1 < len(f); i++ {
			if f[i] != '%' {
				continue
			}
			if f[i+1] == '%' {
				i++
				continue
			}
			j := i + 1
			for j < len(f) && strings.IndexByte("+-# 0123456789.", f[j]) >= 0 {
				j++
			}
			if j < len(f) && f[j] == 'w' && ai < args.Len {
				wrapped = args.Obj.Elems[args.Off+ai]
			}
			ai++
			i = j
		}
		fmtPkg := e.P.allPkgs["fmt"].Pkg
		if w, ok := wrapped.(Iface); ok && w.T != nil {
			wt := fmtPkg.Scope().Lookup("wrapError").Type()
			o := e.newObj(wt, &Struct{F: []Value{Str{S: msg}, w}}, "wrapError")
			return Iface{T: types.NewPointer(wt), V: Ptr{Obj: o}}
		}
		et := e.P.allPkgs["errors"].Pkg.Scope().Lookup("errorString").Type()
		o := e.newObj(et, &Struct{F: []Value{Str{S: msg}}}, "errorString")
		return Iface{T: types.NewPointer(et), V: Ptr{Obj: o}}
	})
	always("errors.Is", func(e *Exec, a []Value) Value { return e.errorsIs(a[0].(Iface), a[1].(Iface)) })
}

// lazyMeta: the built-in meta-schemas are not decoded (1 600 lines of JSON nobody looks at in
// most properties); a placeholder schema stands for them unless real_meta is set.
func (e *Exec) lazyMeta(which string) Value {
	if e.Params["real_meta"] == 1 || e.Ext["real_meta"] != nil {
		// the accessor's own body runs (a change to it must be seen), not a shortcut to the decoder behind it
		name := "MustLoadSwagger20Schema"
		if which == "draft04" {
			name = "MustLoadJSONSchemaDraft04"
		}
		return e.callFnBody(nil, e.P.Pkg.Func(name), nil, nil)
	}
	st := e.P.Pkg.Type("Schema").Type()
	p := e.alloc(st, "meta-schema:"+which)
	return p
}

func (e *Exec) errorsIs(err, target Iface) Value {
	if err.T == nil || target.T == nil {
		return sym.BoolC(err.T == nil && target.T == nil)
	}
	for depth := 0; depth < 50; depth++ {
		if types.Identical(err.T, target.T) && types.Comparable(err.T) {
			if e.Branch(e.equal(err.T, err.V, target.V)) {
				return sym.True
			}
		}
		ms := e.P.Prog.MethodSets.MethodSet(err.T)
		if sel := ms.Lookup(nil, "Is"); sel != nil {
			fn := e.P.Prog.MethodValue(sel)
			if fn != nil && fn.Signature.Params().Len() == 1 {
				if e.Branch(e.callFn(nil, fn, []Value{err.V, target}, nil).(*T)) {
					return sym.True
				}
			}
		}
		sel := ms.Lookup(nil, "Unwrap")
		if sel == nil {
			return sym.False
		}
		fn := e.P.Prog.MethodValue(sel)
		res := e.callFn(nil, fn, []Value{err.V}, nil)
		switch r := res.(type) {
		case Iface:
			if r.T == nil {
				return sym.False
			}
			err = r
		case Slice:
			for i := 0; i < r.Len; i++ {
				if e.Branch(e.errorsIs(r.Obj.Elems[r.Off+i].(Iface), target).(*T)) {
					return sym.True
				}
			}
			return sym.False
		default:
			return sym.False
		}
	}
	return sym.False
}

func (e *Exec) sprintf(format Str, args Slice) string {
	f := format.S
	var sb strings.Builder
	ai := 0
	for i := 0; i < len(f); i++ {
		if f[i] != '%' || i+1 >= len(f) {
			sb.WriteByte(f[i])
			continue
		}
		if f[i+1] == '%' {
			sb.WriteByte('%')
			i++
			continue
		}
		j := i + 1
		for j < len(f) && strings.IndexByte("+-# 0123456789.", f[j]) >= 0 {
			j++
		}
		if j >= len(f) {
			break
		}
		if ai < args.Len {
			sb.WriteString(e.fmtVal(args.Obj.Elems[args.Off+ai], f[j]))
		} else {
			sb.WriteString("%!" + string(f[j]) + "(MISSING)")
		}
		ai++
		i = j
	}
	return sb.String()
}

func (e *Exec) fmtVal(v Value, verb byte) string {
	switch x := v.(type) {
	case Iface:
		if x.T == nil {
			return "<nil>"
		}
		// error / Stringer
		if verb == 'v' || verb == 's' || verb == 'w' || verb == 'q' {
			ms := e.P.Prog.MethodSets.MethodSet(x.T)
			for _, mn := range []string{"Error", "String"} {
				if sel := ms.Lookup(nil, mn); sel != nil {
					fn := e.P.Prog.MethodValue(sel)
					if fn != nil && fn.Signature.Params().Len() == 0 && fn.Signature.Results().Len() == 1 && isString(fn.Signature.Results().At(0).Type()) {
						if p, ok := x.V.(Ptr); ok && p.Obj == nil {
							return "<nil>"
						}
						r := e.callFn(nil, fn, []Value{x.V}, nil)
						return e.fmtVal(r, verb)
					}
				}
			}
		}
		if isInteger(x.T) {
			t := x.V.(*T)
			if t.IsConst() {
				if isSigned(x.T) {
					return strconv.FormatInt(int64(sym.SExt(t, 64).Val), 10)
				}
				return strconv.FormatUint(t.Val, 10)
			}
		}
		return e.fmtVal(x.V, verb)
	case Str:
		if x.Concrete() {
			if verb == 'q' {
				return strconv.Quote(x.S)
			}
			return x.S
		}
		return "<sym-string>"
	case *T:
		if x.IsConst() {
			if x.S.K == sym.KBool {
				return fmt.Sprint(x.Val == 1)
			}
			return fmt.Sprint(int64(x.Val))
		}
		return "<sym>"
	case Ptr:
		if x.Obj == nil {
			return "<nil>"
		}
		return fmt.Sprintf("0xc%06d", x.Obj.ID)
	}
	return showVal(v)
}
