package engine

import (
	"fmt"
	"os"
	"strings"

	"golang.org/x/tools/go/ssa"

	"verif/internal/sym"
)

// Event traces for the concurrency check (C17): accesses to state shared between goroutines
// (package state, objects marked with vShare) and the synchronisation operations around them.

type TraceEvent struct {
	Kind string `json:"k"` // R W (memory), L U RL RU (mutex), OB OE (sync.Once body)
	Loc  string `json:"l"` // location or lock identity (stable across paths)
	Fn   string `json:"f,omitempty"`

	inOnce bool // set by the interleaving encoder: the event lies inside a sync.Once body
}

func (e *Exec) locID(o *Obj, path []int) string {
	switch {
	case o.SharedID != "":
		return fmt.Sprintf("%s%v", o.SharedID, path)
	case o.Origin != nil:
		return fmt.Sprintf("g%d%v", o.Origin.ID, path)
	}
	return ""
}

func (e *Exec) traceAccess(kind string, o *Obj, path []int) {
	if e.atomicDepth > 0 || e.initMode {
		return
	}
	// struct field granularity: first path element
	p := path
	if len(p) > 1 {
		p = p[:1]
	}
	id := e.locID(o, p)
	if id == "" {
		return
	}
	e.events = append(e.events, TraceEvent{Kind: kind, Loc: id, Fn: e.curFnName()})
}

func (e *Exec) traceMap(kind string, m *Map) {
	if e.atomicDepth > 0 || e.initMode {
		return
	}
	id := ""
	switch {
	case m.SharedID != "":
		id = m.SharedID
	case m.Origin != nil:
		id = fmt.Sprintf("gm%d", m.Origin.ID)
	}
	if id == "" {
		return
	}
	e.events = append(e.events, TraceEvent{Kind: kind, Loc: id, Fn: e.curFnName()})
}

func (e *Exec) curFnName() string { return e.curFn }

// share marks every object reachable from v as shared, with identities derived from traversal order
func (e *Exec) share(v Value, name string) {
	n := 0
	seenO := map[*Obj]bool{}
	seenM := map[*Map]bool{}
	var walk func(v Value)
	walkObj := func(o *Obj) {
		if o == nil || seenO[o] || o.Frozen() {
			return
		}
		seenO[o] = true
		if o.Origin == nil {
			o.SharedID = fmt.Sprintf("%s#%d", name, n)
			n++
		}
		if o.Arr {
			for _, el := range o.Elems {
				walk(el)
			}
		} else {
			walk(o.V)
		}
	}
	walk = func(v Value) {
		switch x := v.(type) {
		case Ptr:
			walkObj(x.Obj)
		case Slice:
			walkObj(x.Obj)
		case MapRef:
			if x.M != nil && !seenM[x.M] {
				seenM[x.M] = true
				if x.M.Origin == nil {
					x.M.SharedID = fmt.Sprintf("%s#m%d", name, n)
					n++
				}
				for _, en := range x.M.Entries {
					walk(en.K)
					walk(en.V)
				}
			}
		case *Struct:
			for _, f := range x.F {
				walk(f)
			}
		case *Array:
			for _, f := range x.E {
				walk(f)
			}
		case Iface:
			if x.T != nil {
				walk(x.V)
			}
		case *Closure:
			if x != nil {
				for _, f := range x.Env {
					walk(f)
				}
			}
		}
	}
	walk(v)
}

func registerTrace(p *Program) {
	h := func(name string, f func(e *Exec, a []Value) Value) {
		p.intrinsics[specPkg+name] = func(e *Exec, _ *frame, _ *ssa.Function, a []Value) (Value, bool) { return f(e, a), true }
	}
	h("vShare", func(e *Exec, a []Value) Value {
		e.share(a[0], e.cstr(a[1]))
		return nil
	})
	h("vTraceBegin", func(e *Exec, a []Value) Value {
		e.tracing = true
		e.events = nil
		if ForkStats == nil {
			// curFn is only maintained when asked for
		}
		return nil
	})
	h("vTraceEnd", func(e *Exec, a []Value) Value {
		e.tracing = false
		if e.Traces == nil {
			e.Traces = map[string][]TraceEvent{}
		}
		e.Traces[e.cstr(a[0])] = e.events
		e.events = nil
		return nil
	})
	// synchronisation primitives: emit an event when the primitive itself is shared, then run the real code
	lock := func(fn, kind string) {
		p.intrinsics[fn] = func(e *Exec, _ *frame, _ *ssa.Function, a []Value) (Value, bool) {
			if e.tracing {
				if pp, ok := a[0].(Ptr); ok && pp.Obj != nil {
					if id := e.locID(pp.Obj, pp.Path); id != "" {
						e.events = append(e.events, TraceEvent{Kind: kind, Loc: id})
					}
				}
			}
			return nil, false
		}
	}
	lock("(*sync.Mutex).Lock", "L")
	lock("(*sync.Mutex).Unlock", "U")
	lock("(*sync.RWMutex).Lock", "L")
	lock("(*sync.RWMutex).Unlock", "U")
	lock("(*sync.RWMutex).RLock", "RL")
	lock("(*sync.RWMutex).RUnlock", "RU")
	p.intrinsics["(*sync.Once).Do"] = func(e *Exec, fr *frame, fn *ssa.Function, a []Value) (Value, bool) {
		id := ""
		if pp, ok := a[0].(Ptr); ok && pp.Obj != nil && e.tracing {
			id = e.locID(pp.Obj, pp.Path)
		}
		if id == "" {
			return nil, false
		}
		e.events = append(e.events, TraceEvent{Kind: "OB", Loc: id})
		saved, savedCtr := e.onceShare, e.onceCtr
		e.onceShare, e.onceCtr = "once:"+id, 0
		r := e.callFnBody(fr, fn, a, nil)
		e.onceShare, e.onceCtr = saved, savedCtr
		e.events = append(e.events, TraceEvent{Kind: "OE", Loc: id})
		return r, true
	}
}

// ---------- race analysis over two traces ----------

var raceCtr int

type Race struct {
	A, B     TraceEvent
	Schedule string
}

// FindRace asks the solver for an interleaving of the two traces in which two conflicting accesses
// (same location, at least one write) are adjacent. onceWinner: which thread runs the sync.Once bodies.
func FindRace(solver *sym.Solver, ta, tb []TraceEvent) (*Race, int, error) {
	return findConflict(solver, ta, tb, nil)
}

// FindFlow asks for an interleaving in which one thread reads (or overwrites) a location of the
// library's own package state (location name starts with one of the prefixes) after the other thread
// wrote it outside a sync.Once initialisation — ordered by locks or not. Two calls on independent data
// must not communicate through such state: a satisfiable query is a candidate for "the call does not
// return what it would have returned running alone".
func FindFlow(solver *sym.Solver, ta, tb []TraceEvent, prefixes []string) (*Race, int, error) {
	return findConflict(solver, ta, tb, prefixes)
}

func findConflict(solver *sym.Solver, ta, tb []TraceEvent, flowPrefixes []string) (*Race, int, error) {
	queries := 0
	flow := flowPrefixes != nil
	libState := func(loc string) bool {
		for _, p := range flowPrefixes {
			if strings.HasPrefix(loc, p) {
				return true
			}
		}
		return false
	}
	// locations written by one side and touched by the other
	type acc struct {
		idx  int
		ev   TraceEvent
		side int
	}
	writesA, writesB := map[string]bool{}, map[string]bool{}
	touchA, touchB := map[string]bool{}, map[string]bool{}
	for _, ev := range ta {
		if ev.Kind == "W" {
			writesA[ev.Loc] = true
		}
		if ev.Kind == "R" || ev.Kind == "W" {
			touchA[ev.Loc] = true
		}
	}
	for _, ev := range tb {
		if ev.Kind == "W" {
			writesB[ev.Loc] = true
		}
		if ev.Kind == "R" || ev.Kind == "W" {
			touchB[ev.Loc] = true
		}
	}
	conflict := map[string]bool{}
	for l := range writesA {
		if touchB[l] && (!flow || libState(l)) {
			conflict[l] = true
		}
	}
	for l := range writesB {
		if touchA[l] && (!flow || libState(l)) {
			conflict[l] = true
		}
	}
	if len(conflict) == 0 {
		return nil, 0, nil
	}
	for winner := 0; winner < 2; winner++ {
		// the loser of a sync.Once does not execute the body: drop its events between OB and OE
		filter := func(t []TraceEvent, loser bool) []TraceEvent {
			var out []TraceEvent
			depth := 0
			for _, ev := range t {
				if ev.Kind == "OB" {
					out = append(out, ev)
					depth++
					continue
				}
				if ev.Kind == "OE" {
					depth--
					out = append(out, ev)
					continue
				}
				if loser && depth > 0 {
					continue
				}
				ev.inOnce = depth > 0
				out = append(out, ev)
			}
			return out
		}
		fa, fb := filter(ta, winner == 1), filter(tb, winner == 0)
		// keep only synchronisation events and accesses to conflicting locations (first and last of a run suffice)
		keep := func(t []TraceEvent) []TraceEvent {
			var out []TraceEvent
			for _, ev := range t {
				if ev.Kind == "R" || ev.Kind == "W" {
					if !conflict[ev.Loc] {
						continue
					}
					if n := len(out); n > 0 && out[n-1].Kind == ev.Kind && out[n-1].Loc == ev.Loc && out[n-1].inOnce == ev.inOnce {
						continue
					}
				}
				out = append(out, ev)
			}
			return out
		}
		fa, fb = keep(fa), keep(fb)
		if len(fa)+len(fb) > 4000 {
			return nil, queries, fmt.Errorf("traces too long for the interleaving encoding (%d events)", len(fa)+len(fb))
		}
		var sb strings.Builder
		raceCtr++
		rc := raceCtr
		name := func(side, i int) string { return fmt.Sprintf("p%d_%d_%d", rc, side, i) }
		decl := func(side int, t []TraceEvent) {
			for i := range t {
				fmt.Fprintf(&sb, "(declare-const %s Int)\n", name(side, i))
				if i > 0 {
					fmt.Fprintf(&sb, "(assert (< %s %s))\n", name(side, i-1), name(side, i))
				}
			}
		}
		sb.WriteString("(push 1)\n")
		decl(0, fa)
		decl(1, fb)
		// positions are distinct across threads
		for i := range fa {
			for j := range fb {
				fmt.Fprintf(&sb, "(assert (not (= %s %s)))\n", name(0, i), name(1, j))
			}
		}
		// critical sections
		type section struct {
			lo, hi int
			read   bool
			lock   string
		}
		sections := func(t []TraceEvent) []section {
			var out []section
			open := map[string][]int{}
			for i, ev := range t {
				switch ev.Kind {
				case "L", "RL":
					open[ev.Loc] = append(open[ev.Loc], i)
				case "U", "RU":
					if st := open[ev.Loc]; len(st) > 0 {
						lo := st[len(st)-1]
						open[ev.Loc] = st[:len(st)-1]
						out = append(out, section{lo: lo, hi: i, read: ev.Kind == "RU", lock: ev.Loc})
					}
				}
			}
			return out
		}
		sa, sbb := sections(fa), sections(fb)
		for _, x := range sa {
			for _, y := range sbb {
				if x.lock != y.lock || x.read && y.read {
					continue
				}
				fmt.Fprintf(&sb, "(assert (or (< %s %s) (< %s %s)))\n", name(0, x.hi), name(1, y.lo), name(1, y.hi), name(0, x.lo))
			}
		}
		// sync.Once: the winner's body ends before the loser's Do returns
		onceEnd := func(t []TraceEvent, kind string) map[string]int {
			m := map[string]int{}
			for i, ev := range t {
				if ev.Kind == kind {
					if _, ok := m[ev.Loc]; !ok {
						m[ev.Loc] = i // the first Do on this Once: the one whose body may run
					}
				}
			}
			return m
		}
		wT, lT, wSide, lSide := fa, fb, 0, 1
		if winner == 1 {
			wT, lT, wSide, lSide = fb, fa, 1, 0
		}
		wEnd, lEnd := onceEnd(wT, "OE"), onceEnd(lT, "OE")
		wBeg, lBeg := onceEnd(wT, "OB"), onceEnd(lT, "OB")
		for id, we := range wEnd {
			if le, ok := lEnd[id]; ok {
				fmt.Fprintf(&sb, "(assert (< %s %s))\n", name(wSide, we), name(lSide, le))
				// the winner entered first
				fmt.Fprintf(&sb, "(assert (< %s %s))\n", name(wSide, wBeg[id]), name(lSide, lBeg[id]))
			}
		}
		solver.RawText(sb.String())
		// candidate pairs
		for i, x := range fa {
			if x.Kind != "R" && x.Kind != "W" {
				continue
			}
			for j, y := range fb {
				if (y.Kind != "R" && y.Kind != "W") || x.Loc != y.Loc || (x.Kind == "R" && y.Kind == "R") {
					continue
				}
				var q string
				if flow {
					// a write made outside Once initialisation that the other thread's access follows
					var alts []string
					if x.Kind == "W" && !x.inOnce {
						alts = append(alts, fmt.Sprintf("(< %s %s)", name(0, i), name(1, j)))
					}
					if y.Kind == "W" && !y.inOnce {
						alts = append(alts, fmt.Sprintf("(< %s %s)", name(1, j), name(0, i)))
					}
					if len(alts) == 0 {
						continue
					}
					q = fmt.Sprintf("(push 1)\n(assert (or %s false))\n(check-sat)\n(pop 1)\n", strings.Join(alts, " "))
				} else {
					q = fmt.Sprintf("(push 1)\n(assert (or (= %s (+ %s 1)) (= %s (+ %s 1))))\n(check-sat)\n(pop 1)\n", name(1, j), name(0, i), name(0, i), name(1, j))
				}
				queries++
				res := solver.RawCheck(q)
				if res == sym.Sat {
					if f := os.Getenv("GOSYM_DUMPSMT"); f != "" {
						var names []string
						for k := range fa {
							names = append(names, fmt.Sprintf("A%d:%s:%s", k, fa[k].Kind, fa[k].Loc))
						}
						for k := range fb {
							names = append(names, fmt.Sprintf("B%d:%s:%s", k, fb[k].Kind, fb[k].Loc))
						}
						os.WriteFile(f, []byte(sb.String()+q+"\n; "+strings.Join(names, "\n; ")), 0o644)
					}
					solver.RawText("(pop 1)\n")
					sched := fmt.Sprintf("once winner: thread %d; conflicting accesses made adjacent", winner)
					if flow {
						sched = fmt.Sprintf("once winner: thread %d; the access of one thread follows the other thread's write to library state", winner)
					}
					return &Race{A: x, B: y, Schedule: sched}, queries, nil
				}
				if res == sym.Unknown {
					solver.RawText("(pop 1)\n")
					return nil, queries, fmt.Errorf("solver unknown on an interleaving query")
				}
			}
		}
		solver.RawText("(pop 1)\n")
	}
	return nil, queries, nil
}
