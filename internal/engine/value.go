// Package engine: a bounded symbolic executor over go/ssa.
package engine

import (
	"fmt"
	"go/types"
	"strings"

	"golang.org/x/tools/go/ssa"

	"verif/internal/sym"
)

type T = sym.Term

// Value is one of:
//   *sym.Term  (bool, integers of every width, floats as IEEE bit patterns)
//   Str        (string)
//   Ptr        (pointer)
//   Slice
//   MapRef
//   *Struct, *Array (immutable aggregates)
//   Iface
//   *Closure, *ssa.Builtin (function values)
//   Tuple
//   Chan (opaque, unsupported operations)
type Value interface{}

type Str struct {
	S  string // concrete content (when B == nil && Op == nil)
	B  []*T   // symbolic bytes, len(B) = length of the string
	Op *T     // opaque string (uninterpreted sort OStr)
}

func (s Str) Concrete() bool { return s.B == nil && s.Op == nil }
func (s Str) Len() int {
	if s.B != nil {
		return len(s.B)
	}
	return len(s.S)
}
func (s Str) Byte(i int) *T {
	if s.B != nil {
		return s.B[i]
	}
	return sym.BVC(8, uint64(s.S[i]))
}

// Bytes returns the byte terms (nil for an empty string).
func (s Str) Bytes() []*T {
	if s.B != nil {
		return s.B
	}
	out := make([]*T, len(s.S))
	for i := 0; i < len(s.S); i++ {
		out[i] = sym.BVC(8, uint64(s.S[i]))
	}
	return out
}

// StrOfBytes builds a string from byte terms, concretising if all are constant.
func StrOfBytes(b []*T) Str {
	all := true
	for _, x := range b {
		if !x.IsConst() {
			all = false
			break
		}
	}
	if all {
		bs := make([]byte, len(b))
		for i, x := range b {
			bs[i] = byte(x.Val)
		}
		return Str{S: string(bs)}
	}
	if len(b) == 0 {
		return Str{}
	}
	return Str{B: b}
}

type Obj struct {
	V     Value   // scalar/struct objects
	Elems []Value // array objects
	Arr   bool
	ID    int
	Typ   types.Type // type of V, or element type when Arr
	Tag   string
	RO    bool // belongs to pristine package state: stores are reported by write monitors
	Origin   *Obj   // the pristine object this one was cloned from (stable identity across paths)
	SharedID string // set by vShare: the object is shared between the threads of a concurrency check
}

type Ptr struct {
	Obj   *Obj
	Path  []int
	Guard *T // if non-nil: the pointer is nil when Guard is false
	// function pointers etc. never appear here
}

func (p Ptr) IsNilConst() bool { return p.Obj == nil }

type Slice struct {
	Obj           *Obj // array object; nil for nil slice
	Off, Len, Cap int
	// JSON: abstract byte payload (see json model); when non-nil the slice is a []byte holding a JSON text
	Abs   interface{}
	Guard *T // if non-nil: the slice is nil when Guard is false
}

type MapEntry struct {
	K       Value
	V       Value
	Deleted bool
	Guard   *T // entry present iff guard (nil = present)
}

type Map struct {
	ID      int
	KT, VT  types.Type
	Entries []*MapEntry
	idx     map[string]int // concrete key -> entry index
	Frozen  bool
	Origin   *Map
	SharedID string
}

type MapRef struct {
	M     *Map // nil = nil map
	Guard *T   // if non-nil: the map is nil when Guard is false
}

type Struct struct{ F []Value }
type Array struct{ E []Value }

type Iface struct {
	T     types.Type // dynamic type; nil = nil interface
	V     Value
	Guard *T // if non-nil: the interface is nil when Guard is false
}

type Closure struct {
	Fn  *ssa.Function
	Env []Value
}

type Tuple []Value

type Chan struct{ ID int }

// ---------- zero values ----------

func (e *Exec) zero(t types.Type) Value {
	switch u := t.Underlying().(type) {
	case *types.Basic:
		switch {
		case u.Info()&types.IsBoolean != 0:
			return sym.False
		case u.Info()&types.IsString != 0:
			return Str{}
		case u.Kind() == types.UnsafePointer:
			return Ptr{}
		case u.Kind() == types.UntypedNil:
			return Ptr{}
		default:
			return sym.BVC(widthOf(u), 0)
		}
	case *types.Pointer:
		return Ptr{}
	case *types.Slice:
		return Slice{}
	case *types.Map:
		return MapRef{}
	case *types.Struct:
		f := make([]Value, u.NumFields())
		for i := range f {
			f[i] = e.zero(u.Field(i).Type())
		}
		return &Struct{F: f}
	case *types.Array:
		n := int(u.Len())
		el := make([]Value, n)
		if n > 0 {
			z := e.zero(u.Elem())
			for i := range el {
				el[i] = z
			}
		}
		return &Array{E: el}
	case *types.Interface:
		return Iface{}
	case *types.Signature:
		return (*Closure)(nil)
	case *types.Chan:
		return Chan{}
	case *types.Tuple:
		tu := make(Tuple, u.Len())
		for i := range tu {
			tu[i] = e.zero(u.At(i).Type())
		}
		return tu
	}
	panic(fmt.Sprintf("zero: unhandled type %v (%T)", t, t.Underlying()))
}

func widthOf(b *types.Basic) int {
	switch b.Kind() {
	case types.Int8, types.Uint8:
		return 8
	case types.Int16, types.Uint16:
		return 16
	case types.Int32, types.Uint32, types.Float32:
		return 32
	case types.Int, types.Uint, types.Int64, types.Uint64, types.Uintptr, types.Float64, types.UntypedInt, types.UntypedFloat, types.UntypedRune:
		return 64
	case types.Complex64:
		return 64
	case types.Complex128:
		return 64
	}
	return 64
}

func isSigned(t types.Type) bool {
	b, ok := t.Underlying().(*types.Basic)
	if !ok {
		return false
	}
	return b.Info()&types.IsInteger != 0 && b.Info()&types.IsUnsigned == 0
}
func isFloat(t types.Type) bool {
	b, ok := t.Underlying().(*types.Basic)
	return ok && b.Info()&types.IsFloat != 0
}
func isInteger(t types.Type) bool {
	b, ok := t.Underlying().(*types.Basic)
	return ok && b.Info()&types.IsInteger != 0
}
func isString(t types.Type) bool {
	b, ok := t.Underlying().(*types.Basic)
	return ok && b.Info()&types.IsString != 0
}
func isBool(t types.Type) bool {
	b, ok := t.Underlying().(*types.Basic)
	return ok && b.Info()&types.IsBoolean != 0
}

// ---------- debugging ----------

func showVal(v Value) string {
	switch x := v.(type) {
	case nil:
		return "<nil>"
	case *T:
		if x.IsConst() {
			if x.S.K == sym.KBool {
				return fmt.Sprint(x.Val == 1)
			}
			return fmt.Sprint(x.Val)
		}
		s := x.SMT()
		if len(s) > 80 {
			s = s[:80] + "…"
		}
		return s
	case Str:
		if x.Concrete() {
			return fmt.Sprintf("%q", x.S)
		}
		if x.Op != nil {
			return "ostr:" + x.Op.SMT()
		}
		return fmt.Sprintf("symstr[%d]", len(x.B))
	case Ptr:
		if x.Obj == nil {
			return "nil"
		}
		return fmt.Sprintf("&obj%d%v", x.Obj.ID, x.Path)
	case Slice:
		return fmt.Sprintf("slice[%d:%d]", x.Off, x.Off+x.Len)
	case MapRef:
		if x.M == nil {
			return "map(nil)"
		}
		return fmt.Sprintf("map#%d(%d)", x.M.ID, len(x.M.Entries))
	case *Struct:
		var parts []string
		for _, f := range x.F {
			parts = append(parts, showVal(f))
		}
		return "{" + strings.Join(parts, ",") + "}"
	case *Array:
		return fmt.Sprintf("array[%d]", len(x.E))
	case Iface:
		if x.T == nil {
			return "iface(nil)"
		}
		return fmt.Sprintf("iface(%v:%s)", x.T, showVal(x.V))
	case *Closure:
		if x == nil {
			return "func(nil)"
		}
		return "func " + x.Fn.String()
	case Tuple:
		var parts []string
		for _, f := range x {
			parts = append(parts, showVal(f))
		}
		return "(" + strings.Join(parts, ",") + ")"
	}
	return fmt.Sprintf("%T", v)
}
