package sym

import (
	"bufio"
	"fmt"
	"io"
	"os/exec"
	"strconv"
	"strings"
	"time"
)

type Result int

const (
	Unsat Result = iota
	Sat
	Unknown
)

func (r Result) String() string { return [...]string{"unsat", "sat", "unknown"}[r] }

// Solver is a persistent SMT-LIB2 process. The asserted stack mirrors a path condition:
// Sync(pc) pops/pushes so that exactly pc is asserted, one push level per conjunct.
type Solver struct {
	Kind     string // z3 | z3-new | cvc5
	cmd      *exec.Cmd
	in       io.WriteCloser
	out      *bufio.Reader
	declared map[string]bool
	stack    []*Term
	marker   int
	TimeoutMs int
	// stats
	Queries int
	Time    time.Duration
	Errors  []string
	Log     io.Writer
}

func NewSolver(kind string, timeoutMs int) (*Solver, error) {
	var cmd *exec.Cmd
	switch kind {
	case "z3", "z3-new":
		cmd = exec.Command(kind, "-in", "-smt2")
	case "cvc5":
		cmd = exec.Command("cvc5", "--incremental", "--lang=smt2", "--produce-models", "--global-declarations", fmt.Sprintf("--tlimit-per=%d", timeoutMs))
	default:
		return nil, fmt.Errorf("unknown solver %s", kind)
	}
	in, err := cmd.StdinPipe()
	if err != nil {
		return nil, err
	}
	outp, err := cmd.StdoutPipe()
	if err != nil {
		return nil, err
	}
	cmd.Stderr = cmd.Stdout
	if err := cmd.Start(); err != nil {
		return nil, err
	}
	s := &Solver{Kind: kind, cmd: cmd, in: in, out: bufio.NewReaderSize(outp, 1<<16), declared: map[string]bool{}, TimeoutMs: timeoutMs}
	if kind != "cvc5" {
		s.raw("(set-option :global-declarations true)\n(set-option :produce-models true)\n")
		s.raw(fmt.Sprintf("(set-option :timeout %d)\n", timeoutMs))
	} else {
		// the command-line flag does not make declarations survive (pop) in cvc5 1.0; the option does
		s.raw("(set-option :global-declarations true)\n(set-logic ALL)\n")
	}
	if _, err := s.roundtrip(); err != nil {
		return nil, err
	}
	return s, nil
}

func (s *Solver) Close() {
	if s.cmd != nil {
		s.in.Close()
		s.cmd.Process.Kill()
		s.cmd.Wait()
		s.cmd = nil
	}
}

func (s *Solver) raw(txt string) {
	if s.Log != nil {
		io.WriteString(s.Log, txt)
	}
	io.WriteString(s.in, txt)
}

// roundtrip sends an echo marker and returns all output lines before it.
func (s *Solver) roundtrip() ([]string, error) {
	s.marker++
	m := fmt.Sprintf("@@%d@@", s.marker)
	s.raw("(echo \"" + m + "\")\n")
	var lines []string
	for {
		line, err := s.out.ReadString('\n')
		if err != nil {
			return lines, fmt.Errorf("solver died: %v (%v)", err, lines)
		}
		line = strings.TrimRight(line, "\r\n")
		if strings.Trim(line, "\"") == m {
			break
		}
		if line != "" {
			lines = append(lines, line)
		}
	}
	for _, l := range lines {
		if strings.Contains(l, "(error") {
			s.Errors = append(s.Errors, l)
		}
	}
	return lines, nil
}

func (s *Solver) declare(t *Term) {
	vars := map[string]*Term{}
	t.Vars(vars)
	for n, v := range vars {
		if s.declared[n] {
			continue
		}
		s.declared[n] = true
		if v.S.K == KUnint && !s.declared["sort:"+v.S.Name] {
			s.declared["sort:"+v.S.Name] = true
			s.raw("(declare-sort " + v.S.Name + " 0)\n")
		}
		s.raw("(declare-const " + n + " " + v.S.SMT() + ")\n")
	}
}

// Sync makes the solver's assertion stack equal to pc.
func (s *Solver) Sync(pc []*Term) {
	k := 0
	for k < len(pc) && k < len(s.stack) && pc[k] == s.stack[k] {
		k++
	}
	if n := len(s.stack) - k; n > 0 {
		s.raw(fmt.Sprintf("(pop %d)\n", n))
		s.stack = s.stack[:k]
	}
	for ; k < len(pc); k++ {
		s.declare(pc[k])
		s.raw("(push 1)\n(assert " + pc[k].SMT() + ")\n")
		s.stack = append(s.stack, pc[k])
	}
}

// Check decides pc ∧ extra.
func (s *Solver) Check(pc []*Term, extra *Term) Result {
	r, _ := s.CheckModel(pc, extra, nil)
	return r
}

// CheckModel decides pc ∧ extra and, when sat and vars != nil, returns values for vars.
func (s *Solver) CheckModel(pc []*Term, extra *Term, vars []*Term) (Result, map[string]uint64) {
	t0 := time.Now()
	defer func() { s.Time += time.Since(t0); s.Queries++ }()
	s.Sync(pc)
	nerr := len(s.Errors)
	if extra != nil {
		s.declare(extra)
		s.raw("(push 1)\n(assert " + extra.SMT() + ")\n")
	}
	s.raw("(check-sat)\n")
	lines, err := s.roundtrip()
	res := Unknown
	if err == nil && len(s.Errors) == nerr {
		for _, l := range lines {
			switch strings.TrimSpace(l) {
			case "sat":
				res = Sat
			case "unsat":
				res = Unsat
			}
		}
	}
	var model map[string]uint64
	if res == Sat && vars != nil {
		model = map[string]uint64{}
		var names []string
		for _, v := range vars {
			if v.S.K == KUnint {
				continue
			}
			s.declare(v)
			names = append(names, v.Name)
		}
		for i := 0; i < len(names); i += 200 {
			j := i + 200
			if j > len(names) {
				j = len(names)
			}
			s.raw("(get-value (" + strings.Join(names[i:j], " ") + "))\n")
			ls, err := s.roundtrip()
			if err != nil {
				break
			}
			parseValues(strings.Join(ls, " "), model)
		}
	}
	if extra != nil {
		s.raw("(pop 1)\n")
	}
	return res, model
}

// parseValues parses ((name value) ...) where value is #x.., #b.., true, false, (_ bvN w).
func parseValues(txt string, out map[string]uint64) {
	toks := tokenize(txt)
	// find pairs: "(" name value ")"
	for i := 0; i+2 < len(toks); i++ {
		if toks[i] != "(" || toks[i+1] == "(" {
			continue
		}
		name := toks[i+1]
		v := toks[i+2]
		switch {
		case strings.HasPrefix(v, "#x"):
			n, _ := strconv.ParseUint(v[2:], 16, 64)
			out[name] = n
		case strings.HasPrefix(v, "#b"):
			n, _ := strconv.ParseUint(v[2:], 2, 64)
			out[name] = n
		case v == "true":
			out[name] = 1
		case v == "false":
			out[name] = 0
		case v == "(" && i+4 < len(toks) && toks[i+3] == "_" && strings.HasPrefix(toks[i+4], "bv"):
			n, _ := strconv.ParseUint(toks[i+4][2:], 10, 64)
			out[name] = n
		}
	}
}

func tokenize(s string) []string {
	var toks []string
	i := 0
	for i < len(s) {
		c := s[i]
		switch {
		case c == '(' || c == ')':
			toks = append(toks, string(c))
			i++
		case c == ' ' || c == '\t' || c == '\n':
			i++
		default:
			j := i
			for j < len(s) && s[j] != '(' && s[j] != ')' && s[j] != ' ' && s[j] != '\n' {
				j++
			}
			toks = append(toks, s[i:j])
			i = j
		}
	}
	return toks
}

// RawText sends SMT-LIB text without reading a response.
func (s *Solver) RawText(txt string) { s.raw(txt) }

// RawCheck sends text that ends in (check-sat) and returns the verdict.
func (s *Solver) RawCheck(txt string) Result {
	t0 := time.Now()
	defer func() { s.Time += time.Since(t0); s.Queries++ }()
	nerr := len(s.Errors)
	s.raw(txt)
	lines, err := s.roundtrip()
	if err != nil || len(s.Errors) != nerr {
		return Unknown
	}
	for _, l := range lines {
		switch strings.TrimSpace(l) {
		case "sat":
			return Sat
		case "unsat":
			return Unsat
		}
	}
	return Unknown
}
