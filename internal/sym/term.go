// Package sym: SMT terms (Bool, bit-vectors, uninterpreted sorts) with constant
// folding, SMT-LIB2 printing, and a persistent solver pipe.
package sym

import (
	"fmt"
	"math/bits"
	"strings"
	"sync/atomic"
)

type SortKind int

const (
	KBool SortKind = iota
	KBV
	KUnint
)

type Sort struct {
	K    SortKind
	W    int    // bit width for KBV
	Name string // for KUnint
}

var Bool = Sort{K: KBool}

func BV(w int) Sort        { return Sort{K: KBV, W: w} }
func Unint(n string) Sort  { return Sort{K: KUnint, Name: n} }
func (s Sort) SMT() string {
	switch s.K {
	case KBool:
		return "Bool"
	case KBV:
		return fmt.Sprintf("(_ BitVec %d)", s.W)
	}
	return s.Name
}

type Term struct {
	Op   string
	Args []*Term
	S    Sort
	Val  uint64 // constant value (BV, or 0/1 for Bool)
	Name string // variable name
	P1   int    // extract hi / extend amount
	P2   int    // extract lo
	id   uint64
	size int
	v1    *Term    // the only variable occurring in the term (nil if none or several)
	multi bool     // more than one variable occurs
	tab   []uint64 // value table over the 256 values of v1 (8-bit), computed on demand
	unev  bool     // contains an operator Eval does not support
}

var idCtr uint64

func mk(op string, s Sort, args ...*Term) *Term {
	sz := 1
	for _, a := range args {
		sz += a.size
		if sz > 1<<30 {
			sz = 1 << 30
		}
	}
	t := &Term{Op: op, Args: args, S: s, id: atomic.AddUint64(&idCtr, 1), size: sz}
	for _, a := range args {
		if a.unev {
			t.unev = true
		}
		switch {
		case a.multi:
			t.multi = true
		case a.v1 != nil:
			if t.v1 == nil {
				t.v1 = a.v1
			} else if t.v1.Name != a.v1.Name {
				t.multi = true
			}
		}
	}
	if t.multi {
		t.v1 = nil
	}
	switch op {
	case "fp.eq", "fp.lt", "fp.leq", "fp.gt", "fp.geq", "fp.to_sbv":
		t.unev = true
	}
	return t
}

// Rebuild re-applies the operator of t to new arguments (with constant folding).
func Rebuild(t *Term, a []*Term) *Term {
	switch t.Op {
	case "not":
		return Not(a[0])
	case "and":
		return And(a...)
	case "or":
		return Or(a...)
	case "ite":
		return Ite(a[0], a[1], a[2])
	case "=":
		return Eq(a[0], a[1])
	case "bvadd":
		return Add(a[0], a[1])
	case "bvsub":
		return Sub(a[0], a[1])
	case "bvmul":
		return Mul(a[0], a[1])
	case "bvudiv":
		return UDiv(a[0], a[1])
	case "bvurem":
		return URem(a[0], a[1])
	case "bvsdiv":
		return SDiv(a[0], a[1])
	case "bvsrem":
		return SRem(a[0], a[1])
	case "bvand":
		return BAnd(a[0], a[1])
	case "bvor":
		return BOr(a[0], a[1])
	case "bvxor":
		return BXor(a[0], a[1])
	case "bvshl":
		return Shl(a[0], a[1])
	case "bvlshr":
		return LShr(a[0], a[1])
	case "bvashr":
		return AShr(a[0], a[1])
	case "bvnot":
		return BNot(a[0])
	case "bvneg":
		return Neg(a[0])
	case "bvult":
		return ULt(a[0], a[1])
	case "bvule":
		return ULe(a[0], a[1])
	case "bvslt":
		return SLt(a[0], a[1])
	case "bvsle":
		return SLe(a[0], a[1])
	case "extract":
		return Extract(a[0], t.P1, t.P2)
	case "zext":
		return ZExt(a[0], t.S.W)
	case "sext":
		return SExt(a[0], t.S.W)
	}
	n := mk(t.Op, t.S, a...)
	n.P1, n.P2, n.Name = t.P1, t.P2, t.Name
	return n
}

// Subst replaces variables by constants and simplifies.
func (t *Term) Subst(env map[string]uint64) *Term {
	memo := map[*Term]*Term{}
	var rec func(x *Term) *Term
	rec = func(x *Term) *Term {
		if x.v1 == nil && !x.multi {
			return x // no variables
		}
		if x.Op == "var" {
			if v, ok := env[x.Name]; ok {
				if x.S.K == KBool {
					return BoolC(v != 0)
				}
				return BVC(x.S.W, v)
			}
			return x
		}
		if x.v1 != nil {
			if _, ok := env[x.v1.Name]; !ok {
				return x
			}
		}
		if r, ok := memo[x]; ok {
			return r
		}
		changed := false
		args := make([]*Term, len(x.Args))
		for i, a := range x.Args {
			args[i] = rec(a)
			if args[i] != a {
				changed = true
			}
		}
		r := x
		if changed {
			r = Rebuild(x, args)
		}
		memo[x] = r
		return r
	}
	return rec(t)
}

// SingleVar returns the only variable of t (nil if t has none or several).
func (t *Term) SingleVar() *Term {
	if t.multi {
		return nil
	}
	return t.v1
}

// ByteTable: the value of t for each of the 256 values of its single 8-bit variable.
func (t *Term) ByteTable() []uint64 {
	if t.multi || t.v1 == nil || t.v1.S.K != KBV || t.v1.S.W != 8 || t.unev {
		return nil
	}
	if t.tab != nil {
		return t.tab
	}
	tab := make([]uint64, 256)
	switch t.Op {
	case "var":
		for i := range tab {
			tab[i] = uint64(i)
		}
	case "const":
		for i := range tab {
			tab[i] = t.Val
		}
	default:
		at := make([][]uint64, len(t.Args))
		for k, a := range t.Args {
			if a.v1 == nil && !a.multi {
				// constant sub-term
				v, ok := a.Eval(nil)
				if !ok {
					return nil
				}
				c := make([]uint64, 256)
				for i := range c {
					c[i] = v
				}
				at[k] = c
				continue
			}
			at[k] = a.ByteTable()
			if at[k] == nil {
				return nil
			}
		}
		args := make([]uint64, len(t.Args))
		for i := 0; i < 256; i++ {
			for k := range args {
				args[k] = at[k][i]
			}
			v, ok := evalOp(t, args)
			if !ok {
				return nil
			}
			tab[i] = v
		}
	}
	t.tab = tab
	return tab
}

// evalOp applies the operator of x to argument values.
func evalOp(x *Term, a []uint64) (uint64, bool) {
	var r uint64
	w := x.S.W
	switch x.Op {
	case "not":
		r = 1 - a[0]
	case "and":
		r = 1
		for _, v := range a {
			if v == 0 {
				r = 0
			}
		}
	case "or":
		r = 0
		for _, v := range a {
			if v == 1 {
				r = 1
			}
		}
	case "ite":
		if a[0] == 1 {
			r = a[1]
		} else {
			r = a[2]
		}
	case "=":
		r = b2u(a[0] == a[1])
	case "bvadd":
		r = a[0] + a[1]
	case "bvsub":
		r = a[0] - a[1]
	case "bvmul":
		r = a[0] * a[1]
	case "bvand":
		r = a[0] & a[1]
	case "bvor":
		r = a[0] | a[1]
	case "bvxor":
		r = a[0] ^ a[1]
	case "bvnot":
		r = ^a[0]
	case "bvneg":
		r = -a[0]
	case "bvshl":
		r = Shl(BVC(w, a[0]), BVC(w, a[1])).Val
	case "bvlshr":
		r = LShr(BVC(w, a[0]), BVC(w, a[1])).Val
	case "bvashr":
		r = AShr(BVC(w, a[0]), BVC(w, a[1])).Val
	case "bvudiv":
		r = UDiv(BVC(w, a[0]), BVC(w, a[1])).Val
	case "bvurem":
		r = URem(BVC(w, a[0]), BVC(w, a[1])).Val
	case "bvsdiv":
		r = SDiv(BVC(w, a[0]), BVC(w, a[1])).Val
	case "bvsrem":
		r = SRem(BVC(w, a[0]), BVC(w, a[1])).Val
	case "bvult":
		r = b2u(a[0] < a[1])
	case "bvule":
		r = b2u(a[0] <= a[1])
	case "bvslt":
		ww := x.Args[0].S.W
		r = b2u(signExt(a[0], ww) < signExt(a[1], ww))
	case "bvsle":
		ww := x.Args[0].S.W
		r = b2u(signExt(a[0], ww) <= signExt(a[1], ww))
	case "extract":
		r = a[0] >> uint(x.P2)
	case "zext":
		r = a[0]
	case "sext":
		r = uint64(signExt(a[0], x.Args[0].S.W))
	default:
		return 0, false
	}
	if x.S.K == KBV {
		r &= mask(w)
	}
	return r, true
}

func (t *Term) ID() uint64    { return t.id }
func (t *Term) IsConst() bool { return t.Op == "const" }
func (t *Term) IsTrue() bool  { return t.Op == "const" && t.S.K == KBool && t.Val == 1 }
func (t *Term) IsFalse() bool { return t.Op == "const" && t.S.K == KBool && t.Val == 0 }

var (
	True  = &Term{Op: "const", S: Bool, Val: 1, size: 1}
	False = &Term{Op: "const", S: Bool, Val: 0, size: 1}
)

func BoolC(b bool) *Term {
	if b {
		return True
	}
	return False
}

func mask(w int) uint64 {
	if w >= 64 {
		return ^uint64(0)
	}
	return (uint64(1) << uint(w)) - 1
}

var smallConsts [5][257]*Term // cache for 8-bit & small values

func BVC(w int, v uint64) *Term {
	v &= mask(w)
	if w == 8 {
		if c := smallConsts[0][v]; c != nil {
			return c
		}
		c := &Term{Op: "const", S: BV(8), Val: v, size: 1}
		smallConsts[0][v] = c
		return c
	}
	return &Term{Op: "const", S: BV(w), Val: v, size: 1}
}

func init() {
	for i := 0; i < 256; i++ {
		smallConsts[0][i] = &Term{Op: "const", S: BV(8), Val: uint64(i), size: 1}
	}
}

func Var(name string, s Sort) *Term {
	t := mk("var", s)
	t.Name = name
	t.v1 = t
	return t
}

// UConst: a named constant of an uninterpreted sort (distinctness must be asserted by the user).
func UConst(name string, s Sort) *Term { return Var(name, s) }

func signExt(v uint64, w int) int64 {
	if w >= 64 {
		return int64(v)
	}
	sh := uint(64 - w)
	return int64(v<<sh) >> sh
}

// ---- boolean ----

func Not(a *Term) *Term {
	if a.IsConst() {
		return BoolC(a.Val == 0)
	}
	if a.Op == "not" {
		return a.Args[0]
	}
	return mk("not", Bool, a)
}

func And(as ...*Term) *Term {
	var out []*Term
	for _, a := range as {
		if a.IsFalse() {
			return False
		}
		if a.IsTrue() {
			continue
		}
		if a.Op == "and" {
			out = append(out, a.Args...)
			continue
		}
		out = append(out, a)
	}
	if len(out) == 0 {
		return True
	}
	if len(out) == 1 {
		return out[0]
	}
	return mk("and", Bool, out...)
}

func Or(as ...*Term) *Term {
	var out []*Term
	for _, a := range as {
		if a.IsTrue() {
			return True
		}
		if a.IsFalse() {
			continue
		}
		if a.Op == "or" {
			out = append(out, a.Args...)
			continue
		}
		out = append(out, a)
	}
	if len(out) == 0 {
		return False
	}
	if len(out) == 1 {
		return out[0]
	}
	return mk("or", Bool, out...)
}

func Implies(a, b *Term) *Term { return Or(Not(a), b) }

func Ite(c, a, b *Term) *Term {
	if c.IsTrue() {
		return a
	}
	if c.IsFalse() {
		return b
	}
	if a == b {
		return a
	}
	if a.IsConst() && b.IsConst() && a.S == b.S && a.Val == b.Val {
		return a
	}
	if a.S.K == KBool {
		if a.IsTrue() && b.IsFalse() {
			return c
		}
		if a.IsFalse() && b.IsTrue() {
			return Not(c)
		}
		if a.IsTrue() {
			return Or(c, b)
		}
		if a.IsFalse() {
			return And(Not(c), b)
		}
		if b.IsTrue() {
			return Or(Not(c), a)
		}
		if b.IsFalse() {
			return And(c, a)
		}
	}
	if a.S != b.S {
		panic(fmt.Sprintf("ite sort mismatch %v %v", a.S, b.S))
	}
	return mk("ite", a.S, c, a, b)
}

func Eq(a, b *Term) *Term {
	if a == b {
		return True
	}
	if a.S != b.S {
		panic(fmt.Sprintf("eq sort mismatch %v %v (%s, %s)", a.S, b.S, a.Op, b.Op))
	}
	if a.IsConst() && b.IsConst() {
		return BoolC(a.Val == b.Val)
	}
	if a.S.K == KBool {
		if a.IsConst() {
			if a.Val == 1 {
				return b
			}
			return Not(b)
		}
		if b.IsConst() {
			if b.Val == 1 {
				return a
			}
			return Not(a)
		}
	}
	// eq(ite(c, k1, k2), k) with constants
	if b.IsConst() && a.Op == "ite" && a.Args[1].IsConst() && a.Args[2].IsConst() {
		return Ite(a.Args[0], BoolC(a.Args[1].Val == b.Val), BoolC(a.Args[2].Val == b.Val))
	}
	if a.IsConst() && b.Op == "ite" && b.Args[1].IsConst() && b.Args[2].IsConst() {
		return Ite(b.Args[0], BoolC(b.Args[1].Val == a.Val), BoolC(b.Args[2].Val == a.Val))
	}
	if a.Op == "var" && b.Op == "var" && a.Name == b.Name {
		return True
	}
	return mk("=", Bool, a, b)
}

func Neq(a, b *Term) *Term { return Not(Eq(a, b)) }

// ---- bit-vectors ----

func bin(op string, a, b *Term, f func(x, y uint64, w int) uint64) *Term {
	if a.S != b.S {
		panic(fmt.Sprintf("%s sort mismatch %v %v", op, a.S, b.S))
	}
	w := a.S.W
	if a.IsConst() && b.IsConst() {
		return BVC(w, f(a.Val, b.Val, w))
	}
	return mk(op, a.S, a, b)
}

func Add(a, b *Term) *Term {
	if a.IsConst() && a.Val == 0 {
		return b
	}
	if b.IsConst() && b.Val == 0 {
		return a
	}
	return bin("bvadd", a, b, func(x, y uint64, w int) uint64 { return x + y })
}
func Sub(a, b *Term) *Term {
	if b.IsConst() && b.Val == 0 {
		return a
	}
	return bin("bvsub", a, b, func(x, y uint64, w int) uint64 { return x - y })
}
func Mul(a, b *Term) *Term {
	return bin("bvmul", a, b, func(x, y uint64, w int) uint64 { return x * y })
}
func UDiv(a, b *Term) *Term {
	return bin("bvudiv", a, b, func(x, y uint64, w int) uint64 {
		if y == 0 {
			return mask(w)
		}
		return x / y
	})
}
func URem(a, b *Term) *Term {
	return bin("bvurem", a, b, func(x, y uint64, w int) uint64 {
		if y == 0 {
			return x
		}
		return x % y
	})
}
func SDiv(a, b *Term) *Term {
	return bin("bvsdiv", a, b, func(x, y uint64, w int) uint64 {
		sx, sy := signExt(x, w), signExt(y, w)
		if sy == 0 {
			if sx < 0 {
				return 1
			}
			return mask(w)
		}
		if sy == -1 {
			return uint64(-sx)
		}
		return uint64(sx / sy)
	})
}
func SRem(a, b *Term) *Term {
	return bin("bvsrem", a, b, func(x, y uint64, w int) uint64 {
		sx, sy := signExt(x, w), signExt(y, w)
		if sy == 0 {
			return x
		}
		if sy == -1 {
			return 0
		}
		return uint64(sx % sy)
	})
}
func BAnd(a, b *Term) *Term {
	return bin("bvand", a, b, func(x, y uint64, w int) uint64 { return x & y })
}
func BOr(a, b *Term) *Term {
	return bin("bvor", a, b, func(x, y uint64, w int) uint64 { return x | y })
}
func BXor(a, b *Term) *Term {
	return bin("bvxor", a, b, func(x, y uint64, w int) uint64 { return x ^ y })
}
func Shl(a, b *Term) *Term {
	return bin("bvshl", a, b, func(x, y uint64, w int) uint64 {
		if y >= uint64(w) {
			return 0
		}
		return x << y
	})
}
func LShr(a, b *Term) *Term {
	return bin("bvlshr", a, b, func(x, y uint64, w int) uint64 {
		if y >= uint64(w) {
			return 0
		}
		return (x & mask(w)) >> y
	})
}
func AShr(a, b *Term) *Term {
	return bin("bvashr", a, b, func(x, y uint64, w int) uint64 {
		sx := signExt(x, w)
		if y >= uint64(w) {
			if sx < 0 {
				return mask(w)
			}
			return 0
		}
		return uint64(sx >> y)
	})
}
func BNot(a *Term) *Term {
	if a.IsConst() {
		return BVC(a.S.W, ^a.Val)
	}
	return mk("bvnot", a.S, a)
}
func Neg(a *Term) *Term {
	if a.IsConst() {
		return BVC(a.S.W, -a.Val)
	}
	return mk("bvneg", a.S, a)
}

func cmp(op string, a, b *Term, f func(x, y uint64, w int) bool) *Term {
	if a.S != b.S {
		panic(fmt.Sprintf("%s sort mismatch %v %v", op, a.S, b.S))
	}
	if a.IsConst() && b.IsConst() {
		return BoolC(f(a.Val, b.Val, a.S.W))
	}
	return mk(op, Bool, a, b)
}
func ULt(a, b *Term) *Term {
	return cmp("bvult", a, b, func(x, y uint64, w int) bool { return x < y })
}
func ULe(a, b *Term) *Term {
	return cmp("bvule", a, b, func(x, y uint64, w int) bool { return x <= y })
}
func SLt(a, b *Term) *Term {
	return cmp("bvslt", a, b, func(x, y uint64, w int) bool { return signExt(x, w) < signExt(y, w) })
}
func SLe(a, b *Term) *Term {
	return cmp("bvsle", a, b, func(x, y uint64, w int) bool { return signExt(x, w) <= signExt(y, w) })
}

func Extract(a *Term, hi, lo int) *Term {
	w := hi - lo + 1
	if lo == 0 && w == a.S.W {
		return a
	}
	if a.IsConst() {
		return BVC(w, a.Val>>uint(lo))
	}
	if a.Op == "zext" || a.Op == "sext" {
		inner := a.Args[0]
		if hi < inner.S.W {
			return Extract(inner, hi, lo)
		}
	}
	t := mk("extract", BV(w), a)
	t.P1, t.P2 = hi, lo
	return t
}
func ZExt(a *Term, to int) *Term {
	if to == a.S.W {
		return a
	}
	if a.IsConst() {
		return BVC(to, a.Val)
	}
	t := mk("zext", BV(to), a)
	t.P1 = to - a.S.W
	return t
}
func SExt(a *Term, to int) *Term {
	if to == a.S.W {
		return a
	}
	if a.IsConst() {
		return BVC(to, uint64(signExt(a.Val, a.S.W)))
	}
	t := mk("sext", BV(to), a)
	t.P1 = to - a.S.W
	return t
}

// Resize converts between widths (truncate or extend by signedness of the source).
func Resize(a *Term, to int, signed bool) *Term {
	switch {
	case to == a.S.W:
		return a
	case to < a.S.W:
		return Extract(a, to-1, 0)
	case signed:
		return SExt(a, to)
	default:
		return ZExt(a, to)
	}
}

// ---- floating point (float64 carried as BV64 bit patterns) ----

func fpOf(a *Term) string { return "((_ to_fp 11 53) " + "%s" + ")" }

// FPCmp builds a Bool term comparing two BV64 bit patterns as IEEE doubles.
func FPCmp(op string, a, b *Term) *Term { // op: fp.eq fp.lt fp.leq fp.gt fp.geq
	t := mk(op, Bool, a, b)
	return t
}

// FPBin: arithmetic on doubles (RNE), result as BV64 pattern via fp.to_ieee is not in SMT-LIB;
// we therefore keep results as opaque fresh variables constrained through to_fp equality.
// (Only used when repo code computes on floats, which the checked properties avoid.)

// FPToSBV: int64(f)
func FPToSBV(a *Term, w int) *Term {
	t := mk("fp.to_sbv", BV(w), a)
	t.P1 = w
	return t
}
func FPIsZero(a *Term) *Term { // +0 or -0
	if a.IsConst() {
		return BoolC(a.Val<<1 == 0)
	}
	return Eq(Extract(a, 62, 0), BVC(63, 0))
}

// ---- printing ----

func bvLit(w int, v uint64) string {
	v &= mask(w)
	if w%4 == 0 {
		return fmt.Sprintf("#x%0*x", w/4, v)
	}
	return fmt.Sprintf("#b%0*b", w, v)
}

// SMT renders the term; shared sub-DAGs are let-bound.
func (t *Term) SMT() string {
	refs := map[*Term]int{}
	var count func(x *Term)
	count = func(x *Term) {
		refs[x]++
		if refs[x] > 1 {
			return
		}
		for _, a := range x.Args {
			count(a)
		}
	}
	count(t)
	var sb strings.Builder
	names := map[*Term]string{}
	var order []*Term
	// post-order collect shared non-leaf nodes
	seen := map[*Term]bool{}
	var collect func(x *Term)
	collect = func(x *Term) {
		if seen[x] {
			return
		}
		seen[x] = true
		for _, a := range x.Args {
			collect(a)
		}
		if refs[x] > 1 && len(x.Args) > 0 && x != t {
			order = append(order, x)
		}
	}
	collect(t)
	var pr func(x *Term, top bool) string
	pr = func(x *Term, top bool) string {
		if !top {
			if n, ok := names[x]; ok {
				return n
			}
		}
		switch x.Op {
		case "const":
			if x.S.K == KBool {
				if x.Val == 1 {
					return "true"
				}
				return "false"
			}
			return bvLit(x.S.W, x.Val)
		case "var":
			return x.Name
		case "extract":
			return fmt.Sprintf("((_ extract %d %d) %s)", x.P1, x.P2, pr(x.Args[0], false))
		case "zext":
			return fmt.Sprintf("((_ zero_extend %d) %s)", x.P1, pr(x.Args[0], false))
		case "sext":
			return fmt.Sprintf("((_ sign_extend %d) %s)", x.P1, pr(x.Args[0], false))
		case "fp.eq", "fp.lt", "fp.leq", "fp.gt", "fp.geq":
			return fmt.Sprintf("(%s ((_ to_fp 11 53) %s) ((_ to_fp 11 53) %s))", x.Op, pr(x.Args[0], false), pr(x.Args[1], false))
		case "fp.to_sbv":
			return fmt.Sprintf("((_ fp.to_sbv %d) RTZ ((_ to_fp 11 53) %s))", x.P1, pr(x.Args[0], false))
		}
		var b strings.Builder
		b.WriteByte('(')
		b.WriteString(x.Op)
		for _, a := range x.Args {
			b.WriteByte(' ')
			b.WriteString(pr(a, false))
		}
		b.WriteByte(')')
		return b.String()
	}
	closes := 0
	for i, x := range order {
		n := fmt.Sprintf("l!%d", i)
		sb.WriteString("(let ((" + n + " " + pr(x, true) + ")) ")
		names[x] = n
		closes++
	}
	sb.WriteString(pr(t, true))
	sb.WriteString(strings.Repeat(")", closes))
	return sb.String()
}

// Vars collects the variables of t into m.
func (t *Term) Vars(m map[string]*Term) {
	seen := map[*Term]bool{}
	var rec func(x *Term)
	rec = func(x *Term) {
		if seen[x] {
			return
		}
		seen[x] = true
		if x.Op == "var" {
			m[x.Name] = x
		}
		for _, a := range x.Args {
			rec(a)
		}
	}
	rec(t)
}

// Eval evaluates t under an assignment of variables (missing vars = 0). FP ops unsupported.
func (t *Term) Eval(env map[string]uint64) (uint64, bool) {
	if t.unev {
		return 0, false
	}
	if t.Op == "const" {
		return t.Val, true
	}
	memo := map[*Term]uint64{}
	ok := true
	var ev func(x *Term) uint64
	ev = func(x *Term) uint64 {
		switch x.Op {
		case "const":
			return x.Val
		case "var":
			return env[x.Name]
		}
		if v, h := memo[x]; h {
			return v
		}
		// short-circuit ite
		if x.Op == "ite" {
			var r uint64
			if ev(x.Args[0]) == 1 {
				r = ev(x.Args[1])
			} else {
				r = ev(x.Args[2])
			}
			memo[x] = r
			return r
		}
		args := make([]uint64, len(x.Args))
		for i, a := range x.Args {
			args[i] = ev(a)
		}
		r, o := evalOp(x, args)
		if !o {
			ok = false
		}
		memo[x] = r
		return r
	}
	v := ev(t)
	return v, ok
}

func b2u(b bool) uint64 {
	if b {
		return 1
	}
	return 0
}

var _ = bits.Len
var _ = fpOf
