#!/usr/bin/env python3
# Regenerates MANIFEST.json from the table below (kept in one place so it stays valid).
import json
props=[json.loads(l) for l in open('/verif/properties.jsonl')]
claimed={
 "C05": dict(level="model_checking",
   text="The Resolve*WithBase entry points run from SSA on documents whose addressed member name is a vector of solver bytes over an escape-heavy alphabet; the reference is built by an independent oracle-side escaper, so every unescape-order / percent-decoding / typed-lookup mistake shows as a satisfying byte assignment. Error-iff-dangling, member-wise equality with the designated node, agreement of the three root representations and an unchanged root are the obligations.",
   note="Trusted: as C02 plus the oracle's escaper. Bounds: names of 1-2/3 bytes, 2 documents.",
   design="4 C05", technique="bounded symbolic execution of go/ssa (byte-vector names) + SMT (z3), counterexample replay"),
 "C16": dict(level="model_checking",
   text="Two- and three-call histories run from SSA starting from the pristine package state (package initialisers executed by the engine, the resolution cache initialised through its real sync.Once from the real embedded meta-schemas): a call repeated after calls on other worlds that reuse the same document URLs with different content must give the same result and the same loader log; options are compared field-wise; the built-in meta-schemas must stay resolvable, unmodified and never requested.",
   note="Trusted: as C02; M-sync sequential. Bounds: histories of 1-2 intervening calls, 4 call kinds.",
   design="4 C16", technique="bounded symbolic execution of go/ssa over call histories + SMT (z3), counterexample replay"),
 "C09": dict(level="model_checking",
   text="ExpandSpec with SkipSchemas runs from SSA on worlds whose parameters, responses and path items are imported from other directories with schema references pointing back to the root, to their own and to a third document (all combinations); element-level $refs, untouched definitions, validity of rebased schema $refs from the root location, bisimilarity, and equality of a subsequent full expansion with the direct one are asserted.",
   note="Trusted: as C02. Bounds: 3 documents, 3 schema slots, 2 directory layouts.",
   design="4 C09", technique="bounded symbolic execution of go/ssa over exhaustively enumerated small reference graphs + SMT (z3), counterexample replay"),
 "C10": dict(level="model_checking",
   text="Each single-element entry point runs from SSA on every small single-document reference graph; the result, placed back into its root, must be bisimilar to the original element, leave only cycle cut-points that resolve against the root, and the root's JSON and the caller's options must be unchanged.",
   note="Trusted: as C02. Bounds: 2 definitions, 1 parameter/response hop, 8 entry-point variants.",
   design="4 C10", technique="bounded symbolic execution of go/ssa over exhaustively enumerated small reference graphs + SMT (z3), counterexample replay"),
 "C18": dict(level="model_checking",
   text="ExpandSchemaWithBasePath runs from SSA on small multi-document worlds under four cache regimes; which documents are pre-loaded is a vector of solver bits decided lazily, so one path covers every pre-load subset it never looked at. Result equality with the cache-less run and the at-most-once / never-if-cached loader discipline are asserted on the recorded call log.",
   note="Trusted: as C02. Bounds: 3 documents, 3 slots, one reuse step.",
   design="4 C18", technique="bounded symbolic execution of go/ssa with symbolic preload bits + SMT (z3), counterexample replay"),
 "C08": dict(level="model_checking",
   text="ExpandSpec runs from SSA on worlds with every kind of unresolvable target; which documents the loader refuses and ContinueOnError are solver variables branched on lazily, so a path's verdict covers every fault subset it never consulted. Oracle: error iff an unresolvable $ref lies on the unfolding (strict); bisimilarity with verbatim unresolvable refs (continue).",
   note="Trusted: as C02. Bounds: 3 documents, 3 slots, 2 fault bits.",
   design="4 C08", technique="bounded symbolic execution of go/ssa with symbolic fault bits + SMT (z3), counterexample replay"),
 "C04": dict(level="model_checking",
   text="Termination and crash-freedom decided by bounded execution with unwinding assertions as the property: every expansion entry point runs from SSA on hostile worlds (ids of every kind, cycles, dangling documents and pointers, string/number/array/boolean/null targets, self-referring parameters/responses/path items) with SkipSchemas/ContinueOnError symbolic; an interpreted panic or an overrun of the stated work bound (2.5e6 instructions, depth 300; terminating runs need well under 1e6) is a candidate that is replayed natively under a watchdog. The relative-id non-termination is a known finding with exact regions.",
   note="Trusted: SSA executor, z3, models as C02. Bounds: 3 documents, 2-3 slots; not the 'random large graphs' of the property text.",
   design="4 C04", technique="bounded symbolic execution of go/ssa with unwinding assertions as the property + SMT (z3), watchdog replay"),
 "C02": dict(level="model_checking",
   text="The real ExpandSpec (expander, loader, normaliser, cache, jsonpointer, swag) is executed from SSA on every reference graph of a bounded multi-document world; AbsoluteCircularRef and all model-map iteration orders are symbolic and decided per path by the solver; the oracle is an independent coinductive bisimulation of input and output unfoldings. This layer concretises $ref strings at parse points (stated in DESIGN 3): exhaustive over the bounded graphs, symbolic over options and orders. The wrong-document second hop of parameter/response chains is a known finding.",
   note="Trusted: SSA executor, z3, M-json/M-reflect models, net/url as RFC 3986 reference in the oracle. Bounds: 3 documents, 3/4 slots, 12 keyword positions, 2/3 spellings.",
   design="4 C02", technique="bounded symbolic execution of go/ssa over exhaustively enumerated small reference graphs (options and map orders symbolic) + SMT (z3), counterexample replay"),
 "C03": dict(level="model_checking",
   text="Same worlds and execution as C02; the oracle is a cycle analysis of the input graph: every $ref left in the output must resolve from the root to a node on an input cycle and have the form the AbsoluteCircularRef option prescribes; acyclic graphs must end $ref-free and byte-identical under a second expansion with an independent symbolic map order.",
   note="As C02.", design="4 C03", technique="bounded symbolic execution of go/ssa over exhaustively enumerated small reference graphs (options and map orders symbolic) + SMT (z3), counterexample replay"),
 "C14": dict(level="model_checking",
   text="Bounded symbolic execution of the gob path: the repo's GobEncode/GobDecode wrappers (padding of security requirements, props/extensions envelopes, Ref via JSON) run from SSA on decoded symbolic documents, encoding/gob itself is a transmit-function model; JSON before/after is compared member-wise by the solver, so zero-valued validations and payload shapes are found as satisfying assignments. The two gob-inherent losses (zero behind pointer, empty arrays in payloads) are known findings with exact regions; everything else must hold.",
   note="Trusted: SSA executor, z3, M-gob (contract model of encoding/gob; each reported witness is replayed through the real library), M-json. Bounds as C01 depth 1.",
   design="4 C14", technique="bounded symbolic execution of go/ssa + gob transmit-function model + SMT (z3), counterexample replay through real encoding/gob"),
 "C15": dict(level="model_checking",
   text="One-step pointer agreement decided symbolically per kind: the real jsonpointer.GetForToken / JSONLookup code runs on a decoded symbolic document (all keyword combinations per path) for every keyword token and for symbolic extension / unknown-keyword names, and the result's encoding is compared by the solver with the corresponding member of the document's own JSON encoding. Multi-token pointers follow by induction over the pointer. Items extensions were repaired in /repo (ba07114); $schema is a known finding.",
   note="Trusted: SSA executor, z3, M-json, M-reflect. Bounds as C01 (depth 1, names of one symbolic byte).",
   design="4 C15", technique="bounded symbolic execution of go/ssa with symbolic member presence + SMT (z3), counterexample replay"),
 "C07": dict(level="model_checking",
   text="Bounded symbolic execution of every UnmarshalJSON/MarshalJSON pair on documents in which one member at a time takes a value of every JSON kind (and duplicates / case-folded names), all other members having symbolic presence: panics and bound overruns are detected by the executor, and byte equality of the first and second encodings is a solver obligation per path. The items:[] instability was repaired in /repo (0d4b6a2); scalar items are a known finding.",
   note="Trusted: SSA executor, z3, M-json. Bounds: one corrupted member at a time, depth 1.",
   design="4 C07", technique="bounded symbolic execution of go/ssa with symbolic member presence and per-member kind variation + SMT (z3), counterexample replay"),
 "C06": dict(level="model_checking",
   text="Bounded symbolic execution of the encoders: (a) no duplicate member names / valid JSON for values decoded from symbolic documents (all keyword combinations per path) and for builder-API sequences with symbolic keys; (b) determinism and documented ordering of schema properties with every map iteration order a symbolic permutation explored independently for two encodings, x-order kinds and values symbolic; (c) escaping of $ref text with unconstrained bytes. The x-order tie nondeterminism found this way was repaired in /repo (fix: 398d85a), raw property names likewise (58ad248).",
   note="Trusted: SSA executor, z3, M-json, M-swag.ConcatJSON; encoding/json sorts map keys (model rule). Bounds: 2 properties, x-order in {0,1,2}, names of one symbolic byte, $ref <= 3/4 bytes.",
   design="4 C06", technique="bounded symbolic execution of go/ssa with symbolic map-iteration permutations + SMT (z3), counterexample replay"),
 "C01": dict(level="model_checking",
   text="Per object kind, the real UnmarshalJSON/MarshalJSON code is executed symbolically on a normal-form document in which the presence of every keyword of the shipped meta-schemas is a solver variable, so one path decides all keyword combinations; member-wise JSON equality of input and output is a set of z3 obligations. Names of extensions, unknown keywords and properties are symbolic bytes. Genuine losses are fixed in /repo (raw property names, header extensions) or listed as known findings ($schema '#', xml/externalDocs extensions).",
   note="Trusted: SSA executor, z3, M-json contract model of encoding/json (field tables regenerated from the current source), M-swag.ConcatJSON. Bounds: depth 1 with minimal children, names of 1/2 symbolic bytes, 1/2 extensions and unknown keywords, one-at-a-time variation of shapes.",
   design="4 C01", technique="bounded symbolic execution of go/ssa with symbolic member presence + SMT (z3), counterexample replay"),
 "C11": dict(level="model_checking",
   text="Bounded symbolic execution of the base-location normaliser through the public resolver: a canonical location with byte-symbolic path segments and a re-spelling of it (operator and position are explored exhaustively, segment bytes are solver variables) must make the loader see identical, canonical URLs; idempotence of normalisation is asserted on the URL the loader received. A genuine defect found this way (file: base with query) was repaired in /repo (fix: commit e9dc163).",
   note="Trusted: SSA executor, z3, M-regexp, M-os (working directory stub). Bounds: <=2/3 segments of <=2 bytes over a 11-value alphabet, one re-spelling operator.",
   design="4 C11", technique="bounded symbolic execution of go/ssa (byte-vector strings) + SMT (z3), counterexample replay"),
 "C12": dict(level="model_checking",
   text="Differential bounded symbolic execution: the URL the real ResolveRefWithBase hands to the loader for a byte-symbolic $ref is compared with net/url's RFC 3986 ResolveReference executed on the same symbolic bytes; one solver obligation per path class, all byte values for short refs, the property's segment alphabet for longer ones. Known deviation (%2F) is listed in known_findings.json as a region; anything outside it is a VIOLATION after native replay.",
   note="Trusted: SSA executor, z3, net/url as the RFC 3986 reference implementation, M-regexp. Bounds: all bytes up to 2/3 bytes, alphabet up to 4/5 bytes, four bases.",
   design="4 C12", technique="bounded symbolic execution of go/ssa (byte-vector strings) + SMT (z3), differential oracle, counterexample replay"),
 "C13": dict(level="model_checking",
   text="Bounded symbolic execution of NewRef -> String -> NewRef, the classification flags, and the JSON and gob codecs of Ref on reference strings whose every byte is an unconstrained solver variable (all 256 values), for every length up to the bound; net/url, strings, jsonreference and jsonpointer run from their SSA. Each path's obligations are solver verdicts over all byte values of that path's class; counterexamples are replayed on the real build.",
   note="Trusted: SSA executor (reachability witnesses replayed natively each run), z3, M-regexp (two regexes as reference Go), M-json/M-gob value-level models. Bounds: length <= 3 quick / 4 thorough; valid UTF-8; no userinfo/opaque.",
   design="4 C13", technique="bounded symbolic execution of go/ssa (byte-vector strings) + SMT (z3), counterexample replay on the real build"),
 "C20": dict(level="model_checking",
   text="Bounded symbolic execution (go/ssa -> SMT, z3) of every validation accessor, clear and has-query on fully symbolic carriers: each of ~1.5e5 obligations is a solver verdict over all 64-bit values, nil-ness combinations, booleans and opaque strings; container sizes are the only bounds. Counterexamples are replayed against the real build before being reported.",
   note="Trusted: the SSA executor (validated per run by replaying reachability witnesses natively), z3; structural equality primitive vDeepEq. Bounds: enum <= 2/3 elements, callbacks <= 2/3, patternProperties <= 1 entry.",
   design="4 C20", technique="bounded symbolic execution of go/ssa + SMT (z3), counterexample replay on the real build"),
}
na_reason={}
m={"version":1,
 "setup_cmd":"cd /verif && GOFLAGS=-mod=mod GOPROXY=off GOSUMDB=off GOTOOLCHAIN=local go build -o bin/gosym ./cmd/gosym",
 "hooks":{"guard":"verif","enable":"harness files /verif/harness/*.go (//go:build verif) are overlaid onto package spec at check time (go/packages Overlay, go test -overlay); no file in /repo is modified","baseline_off_cmd":"cd /repo && go test -vet=off -count=1 -timeout 25m ./...","source_commits":[],"add_only":True},
 "engines":[{"name":"gosym","path":"/verif/cmd/gosym","serves_properties":sorted(claimed),"kind_free_text":"bounded symbolic executor over go/ssa with SMT back end (z3; cvc5/z3-new cross-check), native counterexample replay"}],
 "checks":[], "not_applicable":[],
 "notes":"All checks rebuild SSA from /repo's working tree on every run. See DESIGN.md."}
for p in props:
    i=p['id']
    if i in claimed:
        c=claimed[i]
        m['checks'].append({"property_id":i,"quick_cmd":"bin/gosym check --tier quick %s"%i,"thorough_cmd":"bin/gosym check --tier thorough %s"%i,
          "evidence_file":"/verif/evidence/%s.json"%i,"replay_cmd_template":"bin/gosym replay {path}","engine":"gosym",
          "level_claimed":{"category":c['level'],"text":c['text'],"design_ref":c['design']},"level_note":c['note'],"technique":c['technique']})
    else:
        m['not_applicable'].append({"property_id":i,"reason":na_reason.get(i,"check not built yet (framework under construction; see DESIGN.md section 7 build order)")})
json.dump(m,open('/verif/MANIFEST.json','w'),indent=1)
import jsonschema
jsonschema.validate(m,json.load(open('/root/.vp/MANIFEST.schema.json')))
print("MANIFEST ok:",len(m['checks']),"checks,",len(m['not_applicable']),"n/a")
