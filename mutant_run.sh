#!/bin/bash
# usage: mutant_run.sh <patch> <property> [extra gosym args]  — apply a seeded patch to /repo, run the check, undo.
patch=$1; prop=$2; shift 2
git -C /repo apply "$patch" || exit 3
/verif/bin/gosym check "$@" "$prop" 2>&1 | grep -v "^  vh_" | cut -c1-400
rc=${PIPESTATUS[0]}
git -C /repo checkout -- .
echo "exit=$rc"
