#!/bin/bash
# usage: mutant_wt.sh <patch> <property> [extra gosym args] — like mutant_run.sh but in a scratch worktree
# under /tmp (removed afterwards), so /repo is never touched and several seeds can be run side by side.
patch=$1; prop=$2; shift 2
wt=/tmp/mw_$$_$prop
git -C /repo worktree add --detach $wt HEAD >/dev/null 2>&1 || { echo "worktree failed"; exit 3; }
trap "git -C /repo worktree remove --force $wt >/dev/null 2>&1; git -C /repo worktree prune" EXIT
git -C $wt apply "$patch" || exit 3
VERIF_OUT_DIR=/tmp/mw_ev_$$ ${VERIF:-/verif}/bin/gosym check --repo $wt "$@" "$prop" 2>&1 | grep -v "^  vh_" | cut -c1-400
rc=${PIPESTATUS[0]}
rm -rf /tmp/mw_ev_$$
echo "exit=$rc"
