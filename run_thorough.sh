#!/bin/bash
# runs the thorough tier of the given properties one after the other (for background use with `vp run`)
export GOFLAGS=-mod=mod GOPROXY=off GOSUMDB=off GOTOOLCHAIN=local
cd "$(dirname "$0")"
go build -o bin/gosym ./cmd/gosym || exit 2
for id in "$@"; do
  start=$(date +%s)
  timeout 5400 bin/gosym check -j 8 --repo "${VP_RUN_REPO:-/repo}" --tier thorough $id > thorough_$id.log 2>&1
  rc=$?
  echo "$id rc=$rc secs=$(( $(date +%s) - start )) $(tail -n 1 thorough_$id.log | cut -c1-200)"
done
