#!/bin/bash
# runs the thorough tier of the given properties one after the other (for background use with `vp run`);
# a copy of each evidence file is kept under evidence/thorough/
export GOFLAGS=-mod=mod GOPROXY=off GOSUMDB=off GOTOOLCHAIN=local
cd "$(dirname "$0")"
go build -o bin/gosym ./cmd/gosym || exit 2
mkdir -p evidence/thorough
for id in "$@"; do
  start=$(date +%s)
  timeout ${THOROUGH_TIMEOUT:-2700} bin/gosym check -j ${THOROUGH_J:-16} --repo "${VP_RUN_REPO:-/repo}" --tier thorough $id > thorough_$id.log 2>&1
  rc=$?
  [ $rc -eq 0 ] && cp evidence/$id.json evidence/thorough/$id.json
  echo "$id rc=$rc secs=$(( $(date +%s) - start )) $(tail -n 1 thorough_$id.log | cut -c1-200) $(grep -c INCONCLUSIVE thorough_$id.log) inconclusive"
done
