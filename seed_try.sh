#!/bin/bash
# usage: seed_try.sh <seed id> <harness> [gosym run args] — quick look: run one harness (gosym run, no native replay) on a seeded tree
sid=$1; h=$2; shift 2
wt=/tmp/st_$$
git -C /repo worktree add --detach $wt HEAD >/dev/null 2>&1 || exit 3
trap "git -C /repo worktree remove --force $wt >/dev/null 2>&1; git -C /repo worktree prune" EXIT
git -C $wt apply /verif/seeded/$sid/patch.diff || exit 3
/verif/bin/gosym run -repo $wt -steps 20000000 "$@" $h 2>&1 | grep -v "^$" | cut -c1-330 | head -6
