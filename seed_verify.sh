#!/bin/bash
# usage: seed_verify.sh <dir with patch.diff, demo_test.go, meta.json> <seed id>
# Confirms in a scratch worktree: suite passes with the patch, demo fails with it, demo passes without it.
# On success copies the seed to /verif/seeded/<seed id>/ with the verification record added to meta.json.
src=$1; sid=$2
export GOFLAGS=-mod=mod GOPROXY=off GOSUMDB=off GOTOOLCHAIN=local
wt=/tmp/sv_$sid
git -C /repo worktree add --detach $wt HEAD >/dev/null 2>&1 || { echo "$sid: worktree failed"; exit 2; }
trap "git -C /repo worktree remove --force $wt >/dev/null 2>&1; git -C /repo worktree prune" EXIT
cd $wt
git apply $src/patch.diff || { echo "$sid: patch does not apply"; exit 2; }
go build ./... || { echo "$sid: does not compile"; exit 2; }
suite=fail
for try in 1 2 3; do
  if flock /tmp/spec_suite.lock go test -vet=off -count=1 -timeout 25m ./... >/tmp/sv_$sid.suite.log 2>&1; then suite=pass; break; fi
  grep -q "address already in use" /tmp/sv_$sid.suite.log || break
  sleep 5
done
[ $suite = pass ] || { echo "$sid: SUITE FAILS with patch"; tail -5 /tmp/sv_$sid.suite.log; exit 1; }
cp $src/demo_test.go $wt/zz_seed_demo_test.go
if go test -vet=off -count=1 -run 'TestSeededDemo' . >/tmp/sv_$sid.demo1.log 2>&1; then echo "$sid: demo PASSES with patch (bad)"; exit 1; fi
git checkout -- . 
if ! go test -vet=off -count=1 -run 'TestSeededDemo' . >/tmp/sv_$sid.demo2.log 2>&1; then echo "$sid: demo FAILS on pristine tree (bad)"; tail -5 /tmp/sv_$sid.demo2.log; exit 1; fi
mkdir -p /verif/seeded/$sid
cp $src/patch.diff $src/demo_test.go /verif/seeded/$sid/
python3 - $src/meta.json /verif/seeded/$sid/meta.json <<'PY'
import json,sys
m=json.load(open(sys.argv[1]))
m['verified']={'suite_with_patch':'pass (go test -vet=off -count=1 ./...)','demo_with_patch':'fail','demo_without_patch':'pass','how':'seed_verify.sh in a scratch worktree under /tmp, removed afterwards'}
json.dump(m,open(sys.argv[2],'w'),indent=1)
PY
rm -f /tmp/sv_$sid.*.log
echo "$sid: OK"
